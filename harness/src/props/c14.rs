// C14 — blind rotation evaluates the lookup table at the encrypted index.
//
// Clear path: LookupTable::alloc/set (H2 read accessors) and the public `lookup_table_rotate(k)` for every
// k in [0, 2·N·ext), checked coefficient by coefficient, limb by limb against an index-level model:
//     L[p]  = f[p / step] · 2^{-k_msg}                      p in [0, D),  D = N·ext,  step = D / len(f)
//     T_r   = X^{r - drift} · L   in  Z[X]/(X^D + 1),       drift = step / 2
//     data[i][j] = T_r[j·ext + i]                           (de-interleaving by residue class mod ext)
// Blind path: real CGGI blind rotation under an LWE ciphertext, exact phase of the result computed by the
// harness with the clear GLWE secret, compared with T_r for r = the harness's own modulus switch of the
// LWE sample combined with the clear LWE secret.
use poulpy_bin_fhe::blind_rotation::{
    BlindRotationExecute, BlindRotationKey, BlindRotationKeyEncryptSk, BlindRotationKeyLayout, BlindRotationKeyPrepared,
    BlindRotationKeyPreparedFactory, CGGI, LookUpTableLayout, LookUpTableRotationDirection, LookupTable, LookupTableFactory,
};
use poulpy_core::EncryptionLayout;
use poulpy_core::api::*;
use poulpy_core::layouts::{
    GLWE, GLWELayout, GLWESecret, GLWESecretPreparedFactory, LWE, LWEInfos, LWELayout, LWEPlaintext, LWESecret, LWEToRef, prepared::GLWESecretPrepared,
};

fn mask_w(w: usize) -> u128 {
    if w >= 128 { u128::MAX } else { (1u128 << w) - 1 }
}

/// L (before the drift) as residues mod 2^w; requires len(f) | d
fn model_l(f: &[i64], d: usize, k_msg: usize, w: usize) -> Vec<u128> {
    let step = d / f.len();
    (0..d).map(|p| ((f[p / step] as i128 as u128).wrapping_mul(1u128 << (w - k_msg))) & mask_w(w)).collect()
}

/// X^r · a in Z[X]/(X^D+1), residues mod 2^w
fn model_rot(a: &[u128], r: i128, w: usize) -> Vec<u128> {
    let d = a.len();
    let two_d = 2 * d as i128;
    let mut out = vec![0u128; d];
    for (q, v) in a.iter().enumerate() {
        let e = ((q as i128 + r) % two_d + two_d) % two_d;
        if (e as usize) < d {
            out[e as usize] = *v;
        } else {
            out[e as usize - d] = v.wrapping_neg() & mask_w(w);
        }
    }
    out
}

/// value (mod 2^w, w = size·b) of every coefficient of a one-column VecZnx
fn limbs_to_residues(v: &VecZnx<Vec<u8>>, b: usize) -> Vec<u128> {
    let (n, size) = (v.n(), v.size());
    let w = size * b;
    let mut out = vec![0u128; n];
    for j in 0..size {
        let sh = (size - 1 - j) * b;
        for (o, x) in out.iter_mut().zip(v.at(0, j)) {
            *o = o.wrapping_add((*x as i128 as u128) << sh);
        }
    }
    for o in out.iter_mut() {
        *o &= mask_w(w);
    }
    out
}

fn centre_w(x: u128, w: usize) -> i128 {
    assert!(w >= 1 && w <= 126);
    let x = x & mask_w(w);
    if (x >> (w - 1)) & 1 == 1 { (x as i128) - (1i128 << w) } else { x as i128 }
}

fn dir_name(d: LookUpTableRotationDirection) -> &'static str {
    match d {
        LookUpTableRotationDirection::Left => "left",
        LookUpTableRotationDirection::Right => "right",
    }
}

pub fn run(cfg: &Cfg, rep: &mut Report) {
    let part = cfg.extra.get("part").cloned().unwrap_or_default();
    if part.is_empty() || part == "clear" {
        run_clear(cfg, rep);
    }
    if part.is_empty() || part == "blind" {
        run_blind(cfg, rep);
    }
    if (part.is_empty() || part == "modswitch") && BE_NAME == "fft64ref" {
        run_modswitch(cfg, rep);
    }
}

// ---------------------------------------------------------------------------------------------
// modulus switch (public `mod_switch_2n`): every LWE radix 1..=24 against every domain size, incl. the multi-limb
// regime base2k_lwe <= log2(2D) with and without a partial last limb (the blind path above always uses the GLWE radix)
// ---------------------------------------------------------------------------------------------
fn run_modswitch(cfg: &Cfg, rep: &mut Report) {
    let mut rng = cfg.rng("c14-modswitch");
    let mut idx = 0u64;
    for log2d in 4..=13usize {
        let two_d = 1usize << log2d;
        for b in 1..=24usize {
            for extra_limbs in 0..=2usize {
                idx += 1;
                if idx % cfg.nshards != cfg.shard {
                    continue;
                }
                for dir in [LookUpTableRotationDirection::Left, LookUpTableRotationDirection::Right] {
                    let size = log2d.div_ceil(b) + extra_limbs;
                    let n_lwe = 24usize;
                    let layout = LWELayout { n: (n_lwe as u32).into(), k: ((size * b) as u32).into(), base2k: (b as u32).into() };
                    let mut lwe: LWE<Vec<u8>> = LWE::alloc_from_infos(&layout);
                    let class = rng.below(4);
                    for j in 0..size {
                        for i in 0..=n_lwe {
                            lwe.data_mut().at_mut(0, j)[i] = match class {
                                0 => (1i64 << (b - 1)) - 1,
                                1 => -(1i64 << (b - 1)),
                                _ => rng.signed_bits(b),
                            };
                        }
                    }
                    let mut out = vec![0i64; n_lwe + 1];
                    let desc = jo! {"backend" => BE_NAME, "path" => "modswitch", "two_d" => two_d, "lwe_base2k" => b, "lwe_size" => size, "dir" => format!("{dir:?}"), "digits" => class,
                    "regime" => if b > log2d { "top_limb" } else if log2d % b == 0 { "multi_limb_exact_multiple" } else { "multi_limb_partial" }};
                    let key = format!("modswitch|{two_d}|{b}|{size}|{dir:?}|{class}");
                    rep.case("mod_switch_2n", &key, true);
                    rep.count("modswitch_cases", 1);
                    if let Err(p) = guarded(|| poulpy_bin_fhe::blind_rotation::mod_switch_2n(two_d, &mut out, &lwe.to_ref(), dir)) {
                        rep.violate("mod_switch_2n", desc, format!("panic: {p}"));
                        continue;
                    }
                    let w = size * b;
                    for i in 0..=n_lwe {
                        let limbs: Vec<i64> = (0..size).map(|j| lwe.data().at(0, j)[i]).collect();
                        let mut v = limbs_value_i64(&limbs, b, w); // value * 2^w
                        if matches!(dir, LookUpTableRotationDirection::Left) {
                            v = -v;
                        }
                        // exact index * 2^(w - log2d); the library may round or truncate, on the full value or on the limbs it keeps: allow one index unit
                        let got = big(out[i] as i128) << (w - log2d);
                        let diff = centre(&(got - v), w);
                        if ratio_units(&diff, w - log2d) > 1.0 {
                            rep.violate(
                                "mod_switch_2n",
                                desc.clone(),
                                format!("coefficient {i}: limbs {limbs:?} switch to {} but the value is {:.3} index units away (allowed 1)", out[i], ratio_units(&diff, w - log2d)),
                            );
                            break;
                        }
                    }
                }
            }
        }
    }
}

// ---------------------------------------------------------------------------------------------
// clear path
// ---------------------------------------------------------------------------------------------
/// `max_bits`: largest signed width the documented precondition of `set` admits (|f| << (base2k - k % base2k) fits an i64)
fn table_f(rng: &mut Rng, len: usize, k_msg: usize, class: usize, max_bits: usize) -> Vec<i64> {
    let bits = k_msg.min(max_bits).max(2);
    (0..len)
        .map(|i| match class {
            0 => (i as i64 + 1) & ((1i64 << (max_bits - 1)) - 1), // small, distinct, never zero
            1 => rng.signed_bits(bits),                           // fills the message space
            2 => rng.signed_bits((bits + 3).min(max_bits)),       // exceeds it: wraps mod 1
            _ => {
                if i % 2 == 0 { (1i64 << (bits - 1)) - 1 } else { -(1i64 << (bits - 1)) }
            }
        })
        .collect()
}

/// all digits of the table: [polynomial][limb][coefficient]
fn digits_of(lut: &LookupTable) -> Vec<Vec<Vec<i64>>> {
    lut.verif_data().iter().map(|v| (0..v.size()).map(|j| v.at(0, j).to_vec()).collect()).collect()
}

/// X^r applied to the interleaved digit table (full-domain index p = j·ext + i), per limb
fn rotate_digits(dg: &[Vec<Vec<i64>>], r: i128) -> Vec<Vec<Vec<i64>>> {
    let ext = dg.len();
    let size = dg[0].len();
    let n = dg[0][0].len();
    let d = n * ext;
    let two_d = 2 * d as i128;
    let mut out = vec![vec![vec![0i64; n]; size]; ext];
    for i in 0..ext {
        for l in 0..size {
            for j in 0..n {
                let q = j * ext + i;
                let e = ((q as i128 + r) % two_d + two_d) % two_d;
                let (t, neg) = if (e as usize) < d { (e as usize, false) } else { (e as usize - d, true) };
                out[t % ext][l][t / ext] = if neg { dg[i][l][j].wrapping_neg() } else { dg[i][l][j] };
            }
        }
    }
    out
}

fn run_clear(cfg: &Cfg, rep: &mut Report) {
    let mut rng = cfg.rng(&format!("c14-clear-{BE_NAME}"));
    let ns: &[usize] = if cfg.thorough { &[8, 16, 32, 64, 128, 256, 512] } else { &[8, 16, 32, 64, 128, 256] };
    // (base2k, k_lut, k_msg): one limb / several limbs, message on a limb boundary or not, message in a lower limb
    let radix: &[(usize, usize, usize)] = if IS_FFT64 {
        &[(17, 17, 5), (19, 38, 6), (12, 36, 12), (20, 40, 21), (10, 30, 27), (16, 32, 32), (14, 42, 3)]
    } else {
        &[(52, 52, 5), (40, 80, 41), (30, 90, 60), (17, 34, 6), (45, 90, 90)]
    };
    let mut idx = 0u64;
    for &n in ns {
        let module = new_module(n);
        for ext in [1usize, 2, 4, 8] {
            let mut len = 1usize;
            while len <= n {
                for (ri, &(b, k_lut, k_msg)) in radix.iter().enumerate() {
                    idx += 1;
                    if idx % cfg.nshards != cfg.shard {
                        continue;
                    }
                    // quick: every (n, ext, len) with two radix settings chosen by rotation; thorough: all
                    if !cfg.thorough && (ri as u64 + idx / cfg.nshards) % 3 != 0 {
                        continue;
                    }
                    clear_case(&module, n, ext, len, b, k_lut, k_msg, &mut rng, rep);
                }
                len *= 2;
            }
        }
    }
    // this shard finished its share of the (N, ext, len, radix) grid with every k in [0, 2D) for each table
    rep.count("clear_every_k_complete", 1);
}

fn clear_case(module: &Module<BE>, n: usize, ext: usize, len: usize, b: usize, k_lut: usize, k_msg: usize, rng: &mut Rng, rep: &mut Report) {
    let d = n * ext;
    let class = rng.below(4) as usize;
    // |f| · 2^(base2k - k_msg % base2k) must stay below 2^61 (normalisation headroom) and satisfy the library's own
    // debug assertion bits(f) + k_msg % base2k < 64
    let shift = (b - k_msg % b) % b;
    let max_bits = (61 - shift).min(62 - k_msg % b).min(44);
    let f = table_f(rng, len, k_msg, class, max_bits);
    let desc = jo! {"backend" => BE_NAME, "path" => "clear", "n" => n, "ext" => ext, "len" => len, "base2k" => b, "k_lut" => k_lut, "k_msg" => k_msg, "f_class" => class};
    let key = format!("{BE_NAME}|{n}|{ext}|{len}|{b}|{k_lut}|{k_msg}");
    let layout = LookUpTableLayout { n: (n as u32).into(), extension_factor: ext, k: (k_lut as u32).into(), base2k: (b as u32).into() };
    let size = k_lut.div_ceil(b);
    let w = size * b;
    // history: half of the tables were already encoded once (another function, possibly another precision) before the set under test
    let reuse = rng.coin();
    let g = table_f(rng, len, k_msg, (class + 1) % 4, max_bits);
    let built = guarded(|| {
        let mut lut = LookupTable::alloc(&layout);
        if reuse {
            lut.set(module, &g, k_msg);
            rep.count("clear_set_on_used_table", 1);
        }
        lut.set(module, &f, k_msg);
        lut
    });
    rep.case("clear_set", &key, d >= 4);
    rep.sample_for_op(&format!("{BE_NAME}:clear_set"), || desc.clone());
    let mut lut = match built {
        Ok(l) => l,
        Err(p) => {
            rep.violate("clear_set", desc, format!("panic: {p}"));
            return;
        }
    };
    // ---- set(): drift, shape, value of every coefficient, digit range
    let step = d / len;
    if lut.verif_drift() != step / 2 {
        rep.violate("clear_set", desc.clone(), format!("drift {} != step/2 = {}", lut.verif_drift(), step / 2));
    }
    if lut.verif_data().len() != ext || lut.verif_data().iter().any(|v| v.n() != n || v.size() != size || v.cols() != 1) {
        rep.violate("clear_set", desc.clone(), "table shape differs from (ext polynomials, n, size)".into());
        return;
    }
    let l_model = model_l(&f, d, k_msg, w);
    let t0 = model_rot(&l_model, -((step / 2) as i128), w);
    let half = 1i64 << (b - 1);
    for (i, v) in lut.verif_data().iter().enumerate() {
        let got = limbs_to_residues(v, b);
        for j in 0..n {
            if got[j] != t0[j * ext + i] {
                rep.violate(
                    "clear_set",
                    desc.clone(),
                    format!("polynomial {i} coefficient {j} (domain index {}): value {:#x} != model {:#x} (mod 2^{w})", j * ext + i, got[j], t0[j * ext + i]),
                );
                return;
            }
        }
        for l in 0..size {
            if let Some(x) = v.at(0, l).iter().find(|x| **x < -half || **x > half) {
                rep.violate("clear_set", desc.clone(), format!("polynomial {i} limb {l}: digit {x} outside [-2^{}, 2^{}]", b - 1, b - 1));
                return;
            }
        }
    }
    rep.count("clear_set_coefficients_checked", (d * size) as i128);

    // ---- rotate(): every k in [0, 2D) forward and back, plus negative / beyond-domain / huge indices
    let dg0 = digits_of(&lut);
    let two_d = 2 * d as i64;
    let mut total: i128 = 0; // accumulated rotation the table is in
    let mut ks: Vec<i64> = Vec::with_capacity(4 * d + 64);
    for k in 0..two_d {
        ks.push(k);
        ks.push(-k);
    }
    for _ in 0..24 {
        ks.push(rng.i64_in(-4 * two_d, 4 * two_d));
        ks.push(rng.i64_in(-(1 << 40), 1 << 40));
    }
    for k in [two_d, -two_d, two_d + 1, -two_d - 1, 3 * two_d - 1, -3 * two_d + 1, d as i64, -(d as i64), (1 << 40) + 1, -(1 << 40) - 1] {
        ks.push(k);
    }
    for (step_i, k) in ks.iter().enumerate() {
        let r = guarded(|| module.lookup_table_rotate(*k, &mut lut));
        total += *k as i128;
        let kd = {
            let mut o = desc.clone();
            o.put("k", *k);
            o.put("accumulated", total as i64);
            o.put("k_class", if (0..two_d).contains(k) { "in_domain" } else if *k < 0 && *k > -two_d { "negative" } else { "beyond" });
            o
        };
        if step_i < 2 * two_d as usize {
            if step_i % 64 == 1 {
                rep.case("clear_rotate", &format!("{key}|{k}"), d >= 4);
            } else {
                rep.evaluations += 1;
                *rep.per_op.entry("clear_rotate".into()).or_insert(0) += 1;
            }
        } else {
            rep.case("clear_rotate_wide", &format!("{key}|{k}"), true);
        }
        if let Err(p) = r {
            rep.violate("clear_rotate", kd, format!("panic: {p}"));
            return;
        }
        let want = rotate_digits(&dg0, total);
        let got = digits_of(&lut);
        if got != want {
            let mut where_ = String::new();
            'f: for i in 0..ext {
                for l in 0..size {
                    for j in 0..n {
                        if got[i][l][j] != want[i][l][j] {
                            where_ = format!("polynomial {i} limb {l} coefficient {j}: got {} want {}", got[i][l][j], want[i][l][j]);
                            break 'f;
                        }
                    }
                }
            }
            rep.violate("clear_rotate", kd, format!("table after rotate(k) differs from X^k · table in Z[X]/(X^{d}+1): {where_}"));
            return;
        }
        // value-level restatement at the constant coefficient: T_total[0] = ± L[(drift - total) mod 2D]
        let c0 = limbs_to_residues(&lut.verif_data()[0], b)[0];
        let src = ((step as i128 / 2 - total) % (2 * d as i128) + 2 * d as i128) % (2 * d as i128);
        let want0 = if (src as usize) < d { l_model[src as usize] } else { l_model[src as usize - d].wrapping_neg() & mask_w(w) };
        if c0 != want0 {
            rep.violate("clear_rotate", kd, format!("constant coefficient {c0:#x} != table entry with negacyclic sign {want0:#x}"));
            return;
        }
    }
    rep.count("clear_rotations_checked", ks.len() as i128);
    rep.count("clear_rotate_coefficients_checked", (ks.len() * d * size) as i128);
}

// ---------------------------------------------------------------------------------------------
// blind path
// ---------------------------------------------------------------------------------------------
#[derive(Clone, Copy, Debug, PartialEq, Eq)]
enum SkDist {
    Block(usize),
    Prob,
    Hw,
    Zero,
}

impl SkDist {
    fn name(self) -> String {
        match self {
            SkDist::Block(b) => format!("binary_block_{b}"),
            SkDist::Prob => "binary_prob".into(),
            SkDist::Hw => "binary_hw".into(),
            SkDist::Zero => "zero".into(),
        }
    }
}

struct BlindCfg {
    n: usize,
    b: usize,
    n_lwe: usize,
    dist: SkDist,
    ext: usize,
    limbs: usize, // limbs of the accumulator (k_res = limbs·b), dnum = limbs, k_brk = (limbs+1)·b
    k_lwe: usize,
    rank: usize, // GLWE rank of the accumulator and of the key (1 as in the repository's tests; 2 as used by the BDD layer)
}

/// balanced digits (radix 2^b, most significant first) of x mod 2^(size·b)
fn to_digits(x: u128, b: usize, size: usize) -> Vec<i64> {
    let w = size * b;
    let mut v = centre_w(x, w);
    let mut out = vec![0i64; size];
    for j in (0..size).rev() {
        let mut dgt = (v & ((1i128 << b) - 1)) as i64;
        v >>= b;
        if dgt >= 1i64 << (b - 1) {
            dgt -= 1i64 << b;
            v += 1;
        }
        out[j] = dgt;
    }
    out
}

fn round_shift(x: i128, sh: i64) -> i128 {
    if sh <= 0 { x << (-sh) as u32 } else { (x + (1i128 << (sh - 1))) >> sh }
}
fn floor_shift(x: i128, sh: i64) -> i128 {
    if sh <= 0 { x << (-sh) as u32 } else { x >> sh }
}

/// The harness's modulus switch to Z_{2D} (2D = 2^m), from the definition: the torus value t of the LWE
/// coefficient (negated for the `Left` direction) is mapped to the nearest integer to t·2D.
/// Returns (primary, lo, hi).
///  * radix above 2D (b > m, the usual regime): one limb resolves the grid; `primary` rounds the leading limb,
///    [lo, hi] also admits rounding the full-precision value (they differ only when the lower limbs tip a tie).
///  * radix at or below 2D (b <= m): several limbs are needed; `primary` rounds the full-precision value,
///    [lo, hi] spans round / truncate of the full value and of the leading ceil(m/b) limbs (what a limb-wise
///    implementation naturally computes). Anything outside that range is off by more than a rounding convention.
fn mod_switch_own(limbs: &[i64], b: usize, m: usize, negate: bool) -> (i128, i128, i128) {
    let s = limbs.len();
    let val = |k: usize| -> i128 {
        let mut x: i128 = 0;
        for l in &limbs[..k] {
            x = (x << b) + *l as i128;
        }
        x
    };
    let sgn = if negate { -1i128 } else { 1 };
    let full = round_shift(sgn * val(s), (s * b) as i64 - m as i64);
    if b > m {
        let top = round_shift(sgn * limbs[0] as i128, b as i64 - m as i64);
        (top, top.min(full), top.max(full))
    } else {
        let lead = m.div_ceil(b).min(s);
        let cands = [
            full,
            floor_shift(sgn * val(s), (s * b) as i64 - m as i64),
            round_shift(sgn * val(lead), (lead * b) as i64 - m as i64),
            floor_shift(sgn * val(lead), (lead * b) as i64 - m as i64),
        ];
        (full, *cands.iter().min().unwrap(), *cands.iter().max().unwrap())
    }
}

fn run_blind(cfg: &Cfg, rep: &mut Report) {
    // The repository instantiates blind rotation on the FFT64 backends only; NTT120 runs the same generic code and
    // works with the same parameters (measured), so it gets a reduced share.
    let share = match BE_NAME {
        "fft64avx" => 1.0,
        "fft64ref" => 0.34,
        _ => 0.17,
    };
    let mut rng = cfg.rng(&format!("c14-blind-{BE_NAME}"));
    let mut grid: Vec<BlindCfg> = Vec::new();
    let ns: &[usize] = if cfg.thorough { &[64, 128, 256, 512] } else { &[64, 128, 256] };
    for &n in ns {
        for &(b, limbs) in &[(19usize, 2usize), (17, 2), (14, 2), (12, 3), (10, 3)] {
            for ext in [1usize, 2, 4, 8] {
                let dists: &[SkDist] = if ext == 1 {
                    &[SkDist::Block(1), SkDist::Block(4), SkDist::Prob, SkDist::Hw, SkDist::Block(7), SkDist::Zero]
                } else {
                    &[SkDist::Block(4), SkDist::Block(1), SkDist::Block(7)]
                };
                for &dist in dists {
                    let n_lwe = match dist {
                        SkDist::Block(7) => 56,
                        SkDist::Zero => 8,
                        _ => {
                            if cfg.thorough { [16usize, 32, 48, 96][grid.len() % 4] } else { [16usize, 32, 48][grid.len() % 3] }
                        }
                    };
                    let rank = if grid.len() % 4 == 3 { 2 } else { 1 };
                    grid.push(BlindCfg { n, b, n_lwe, dist, ext, limbs, k_lwe: 2 * b.max(13), rank });
                }
            }
        }
    }
    let keys_budget = ((cfg.budget(96, 8000) as f64 * share).ceil() as usize).max(1);
    // the slow NTT120 backends stay at N <= 128 (quick) / 256 (thorough)
    let n_cap = if IS_FFT64 { usize::MAX } else if cfg.thorough { 256 } else { 128 };
    let mut mine: Vec<usize> = (0..grid.len()).filter(|i| *i as u64 % cfg.nshards == cfg.shard && grid[*i].n <= n_cap).collect();
    // seed-dependent order so that different seeds / tiers visit different cells first
    for i in (1..mine.len()).rev() {
        mine.swap(i, rng.below(i as u64 + 1) as usize);
    }
    let mut done = 0usize;
    let mut round = 0u64;
    while done < keys_budget && !mine.is_empty() {
        for gi in &mine {
            if done >= keys_budget {
                break;
            }
            blind_key(&grid[*gi], round, cfg, &mut rng, rep);
            done += 1;
        }
        round += 1;
    }
}

fn blind_key(c: &BlindCfg, round: u64, cfg: &Cfg, rng: &mut Rng, rep: &mut Report) {
    let (n, b, ext) = (c.n, c.b, c.ext);
    let d = n * ext;
    let m = (2 * d).trailing_zeros() as usize; // 2D = 2^m
    let k_res = c.limbs * b;
    let k_brk = (c.limbs + 1) * b;
    let module = new_module(n);
    let seeds = (rng.seed32(), rng.seed32(), rng.seed32());
    let kdesc = jo! {"backend" => BE_NAME, "path" => "blind", "n" => n, "ext" => ext, "base2k" => b, "n_lwe" => c.n_lwe, "dist" => c.dist.name(),
    "k_res" => k_res, "k_brk" => k_brk, "dnum" => c.limbs, "k_lwe" => c.k_lwe, "log2_2d" => m, "rank" => c.rank,
    "modswitch_regime" => if b > m + 1 { "top_limb" } else if b > m { "top_limb_equal" } else { "multi_limb" },
    "key_seed" => hex(&seeds.0[..8]), "seed" => cfg.seed, "shard" => cfg.shard, "nshards" => cfg.nshards, "tier" => if cfg.thorough { "thorough" } else { "quick" }, "round" => round};

    let brk_infos = EncryptionLayout::new_from_default_sigma(BlindRotationKeyLayout {
        n_glwe: (n as u32).into(),
        n_lwe: (c.n_lwe as u32).into(),
        base2k: (b as u32).into(),
        k: (k_brk as u32).into(),
        dnum: (c.limbs as u32).into(),
        rank: (c.rank as u32).into(),
    })
    .unwrap();
    let glwe_infos =
        EncryptionLayout::new_from_default_sigma(GLWELayout { n: (n as u32).into(), base2k: (b as u32).into(), k: (k_res as u32).into(), rank: (c.rank as u32).into() }).unwrap();
    let lwe_infos = EncryptionLayout::new_from_default_sigma(LWELayout { n: (c.n_lwe as u32).into(), k: (c.k_lwe as u32).into(), base2k: (b as u32).into() }).unwrap();

    // ---- keys
    let setup = guarded(|| {
        let mut source_xs = Source::new(seeds.0);
        let mut source_xe = Source::new(seeds.1);
        let mut source_xa = Source::new(seeds.2);
        let mut scratch: ScratchOwned<BE> = ScratchOwned::<BE>::alloc(
            BlindRotationKey::encrypt_sk_tmp_bytes(&module, &brk_infos).max(module.lwe_encrypt_sk_tmp_bytes(&lwe_infos)) + (1 << 16),
        );
        let mut sk_glwe: GLWESecret<Vec<u8>> = GLWESecret::alloc_from_infos(&glwe_infos);
        sk_glwe.fill_ternary_prob(0.5, &mut source_xs);
        let mut sk_glwe_dft: GLWESecretPrepared<DeviceBuf<BE>, BE> = module.glwe_secret_prepared_alloc_from_infos(&glwe_infos);
        module.glwe_secret_prepare(&mut sk_glwe_dft, &sk_glwe);
        let mut sk_lwe: LWESecret<Vec<u8>> = LWESecret::alloc((c.n_lwe as u32).into());
        match c.dist {
            SkDist::Block(bs) => sk_lwe.fill_binary_block(bs, &mut source_xs),
            SkDist::Prob => sk_lwe.fill_binary_prob(0.5, &mut source_xs),
            SkDist::Hw => sk_lwe.fill_binary_hw(c.n_lwe / 2, &mut source_xs),
            SkDist::Zero => sk_lwe.fill_zero(),
        }
        let mut brk: BlindRotationKey<Vec<u8>, CGGI> = BlindRotationKey::<Vec<u8>, CGGI>::alloc(&brk_infos);
        module.blind_rotation_key_encrypt_sk(&mut brk, &sk_glwe_dft, &sk_lwe, &brk_infos, &mut source_xe, &mut source_xa, scratch.borrow());
        let block_size = match c.dist {
            SkDist::Block(bs) => bs,
            _ => 1,
        };
        // generous scratch for the functional check (the exact-size query is exercised separately below)
        let declared = BlindRotationKeyPrepared::<DeviceBuf<BE>, CGGI, BE>::execute_tmp_bytes(&module, block_size, ext, &glwe_infos, &brk_infos);
        let generous = declared
            .max(BlindRotationKeyPrepared::<DeviceBuf<BE>, CGGI, BE>::execute_tmp_bytes(&module, block_size.max(2), ext, &glwe_infos, &brk_infos))
            .max(BlindRotationKeyPrepared::<DeviceBuf<BE>, CGGI, BE>::prepare_tmp_bytes(&module, &brk_infos))
            * 2
            + (1 << 20);
        let mut scratch_br: ScratchOwned<BE> = ScratchOwned::<BE>::alloc(generous);
        let mut brk_prepared: BlindRotationKeyPrepared<DeviceBuf<BE>, CGGI, BE> = BlindRotationKeyPrepared::alloc(&module, &brk);
        brk_prepared.prepare(&module, &brk, scratch_br.borrow());
        (sk_glwe, sk_lwe, brk_prepared, scratch, scratch_br, source_xe, source_xa, declared)
    });
    let (sk_glwe, sk_lwe, brk_prepared, mut scratch, mut scratch_br, mut source_xe, mut source_xa, declared_tmp) = match setup {
        Ok(x) => x,
        Err(p) => {
            rep.case("blind_keygen", &format!("{BE_NAME}|{n}|{ext}|{b}|{}|{}", c.n_lwe, c.dist.name()), true);
            rep.violate("blind_keygen", kdesc, format!("panic: {p}"));
            return;
        }
    };
    rep.count("blind_keys", 1);
    let s_glwe_cols: Vec<Vec<i64>> = (0..c.rank).map(|col| sk_glwe.verif_data().at(col, 0).to_vec()).collect();
    let s_glwe: Vec<i64> = s_glwe_cols.concat();
    rep.count(&format!("blind_rank{}", c.rank), 1);
    let s_lwe: Vec<i64> = sk_lwe.raw().to_vec();
    let h_glwe = s_glwe.iter().filter(|x| **x != 0).count();
    if s_lwe.iter().any(|x| *x != 0 && *x != 1) {
        rep.inconclusive.push("LWE secret is not binary: the harness's index formula does not apply".into());
        return;
    }

    // predicted standard deviation of the accumulated noise (torus units), worst-case digits
    // Per accumulator update: gadget digits (|d| <= 2^(b-1), variance 2^(2b)/12) times the key error, two columns, dnum rows,
    // N terms, factor 2 for (X^a - 1); plus the rounding of the accumulator to its own precision. The standard (non-block)
    // path adds un-normalised products on an un-normalised accumulator ("normalize only at the end"): the digits of step i are
    // sums of i normalised digits, so the key-error term grows linearly with the step index.
    let sigma_brk = 3.2 * (-(k_brk as f64)).exp2();
    let standard_path = ext == 1 && !matches!(c.dist, SkDist::Block(bs) if bs > 1);
    let growth = if standard_path { (c.n_lwe as f64 + 1.0) / 2.0 } else { 1.0 };
    let per_step = growth * 2.0 * (c.rank as f64 + 1.0) * c.limbs as f64 * n as f64 * (2.0 * b as f64).exp2() / 12.0 * sigma_brk * sigma_brk
        + 2.0 * (1.0 + h_glwe as f64) * (-2.0 * k_res as f64).exp2() / 12.0;
    let sigma_pred = (c.n_lwe.max(1) as f64 * per_step).sqrt();
    let floor = (64.0 * sigma_pred).max(4.0 * (-(k_res as f64)).exp2());
    let mut probed_scratch = false;
    for p in 1..=5usize {
        let k_msg = p + 1;
        if floor > (-(k_msg as f64)).exp2() / 4.0 {
            rep.count("blind_cells_skipped_noise_floor_too_high", 1);
            continue;
        }
        for dir in [LookUpTableRotationDirection::Left, LookUpTableRotationDirection::Right] {
            // table with distinct neighbours (also across the negacyclic wrap), so that any other rotation is visible
            let len = 1usize << p;
            let modulus = 1i64 << k_msg;
            let mut f: Vec<i64> = Vec::with_capacity(len);
            for i in 0..len {
                loop {
                    let v = rng.i64_in(-(modulus / 2), modulus / 2 - 1);
                    let prev_ok = i == 0 || (v - f[i - 1]).rem_euclid(modulus) != 0;
                    let wrap_ok = i + 1 < len || len == 1 || (v + f[0]).rem_euclid(modulus) != 0;
                    if prev_ok && wrap_ok && (len > 1 || v.rem_euclid(modulus) != 0 && (2 * v).rem_euclid(modulus) != 0) {
                        f.push(v);
                        break;
                    }
                }
            }
            let k_lut = if rng.coin() { b } else { k_res };
            let size_lut = k_lut.div_ceil(b);
            let lut_layout = LookUpTableLayout { n: (n as u32).into(), extension_factor: ext, k: (k_lut as u32).into(), base2k: (b as u32).into() };
            let lut = guarded(|| {
                let mut lut = LookupTable::alloc(&lut_layout);
                lut.set(&module, &f, k_msg);
                lut.set_rotation_direction(dir);
                lut
            });
            let lut = match lut {
                Ok(l) => l,
                Err(pn) => {
                    rep.violate("blind_lut_set", kdesc.clone(), format!("panic: {pn}"));
                    continue;
                }
            };
            let w_lut = size_lut * b;
            let step = d / len;
            let t0 = model_rot(&model_l(&f, d, k_msg, w_lut), -((step / 2) as i128), w_lut);

            // messages: the whole of Z_{2^(p+1)} at scale 2^-(p+1) (upper half = negacyclic wrap), library encryption,
            // then harness-made samples whose switched mask hits the boundaries of the extended rotation
            let n_msgs = 2 * len;
            for mi in 0..(n_msgs + 4) {
                let crafted = mi >= n_msgs;
                let x = if crafted { rng.below(n_msgs as u64) as i64 } else { mi as i64 };
                let mut lwe: LWE<Vec<u8>> = LWE::alloc_from_infos(&lwe_infos);
                let size_lwe = c.k_lwe.div_ceil(b);
                let w_lwe = size_lwe * b;
                if !crafted {
                    let mut pt_lwe: LWEPlaintext<Vec<u8>> = LWEPlaintext::alloc_from_infos(&lwe_infos);
                    pt_lwe.encode_i64(x, (k_msg as u32).into());
                    let r = guarded(|| module.lwe_encrypt_sk(&mut lwe, &pt_lwe, &sk_lwe, &lwe_infos, &mut source_xe, &mut source_xa, scratch.borrow()));
                    if let Err(pn) = r {
                        rep.inconclusive.push(format!("lwe_encrypt_sk panicked (outside C14): {pn}"));
                        return;
                    }
                } else {
                    // harness-made LWE sample: mask values chosen on the switched grid (incl. 0, ±1, ext∓1, D, 2D-1 …) plus sub-grid garbage
                    let mut acc: u128 = ((x as i128 as u128) << (w_lwe - k_msg)) & mask_w(w_lwe);
                    let specials: [i64; 12] =
                        [0, 1, -1, ext as i64 - 1, ext as i64, ext as i64 + 1, -(ext as i64) + 1, -(ext as i64), d as i64, d as i64 - 1, n as i64, 2 * n as i64 - 1];
                    for i in 0..c.n_lwe {
                        let g = if rng.chance(2, 3) { *rng.pick(&specials) } else { rng.i64_in(0, 2 * d as i64 - 1) };
                        // torus value g / 2D plus garbage strictly inside the rounding cell
                        let cell = w_lwe - m;
                        let garbage: i128 = if cell >= 3 { rng.signed_bits(cell - 2) as i128 } else { 0 };
                        let a: u128 = ((((g as i128) << cell) + garbage) as u128) & mask_w(w_lwe);
                        let dg = to_digits(a, b, size_lwe);
                        for (j, dj) in dg.iter().enumerate() {
                            lwe.data_mut().at_mut(0, j)[i + 1] = *dj;
                        }
                        if s_lwe[i] == 1 {
                            acc = acc.wrapping_sub(a) & mask_w(w_lwe);
                        }
                    }
                    let e = rng.signed_bits(4) as i128;
                    acc = acc.wrapping_add(e as u128) & mask_w(w_lwe);
                    let dg = to_digits(acc, b, size_lwe);
                    for (j, dj) in dg.iter().enumerate() {
                        lwe.data_mut().at_mut(0, j)[0] = *dj;
                    }
                }
                // ---- harness mod-switch and rotation index
                let negate = matches!(dir, LookUpTableRotationDirection::Left);
                let coeff = |i: usize| -> Vec<i64> { (0..size_lwe).map(|j| lwe.data().at(0, j)[i]).collect() };
                let (mut r0, mut r_lo, mut r_hi) = mod_switch_own(&coeff(0), b, m, negate);
                let mut boundary_hits = 0usize;
                for i in 0..c.n_lwe {
                    let (p0, lo, hi) = mod_switch_own(&coeff(i + 1), b, m, negate);
                    if s_lwe[i] == 1 {
                        r0 += p0;
                        r_lo += lo;
                        r_hi += hi;
                        let pm = p0.rem_euclid(2 * d as i128);
                        if ext > 1 && pm % ext as i128 != 0 && (pm / ext as i128 == 0 || pm / ext as i128 == 2 * n as i128 - 1) {
                            boundary_hits += 1;
                        }
                    }
                }
                let mut desc = kdesc.clone();
                desc.put("p", p);
                desc.put("direction", dir_name(dir));
                desc.put("message", x);
                desc.put("crafted_lwe", crafted);
                desc.put("k_lut", k_lut);
                desc.put("index", r0.rem_euclid(2 * d as i128) as i64);
                desc.put("mask_on_extension_boundary", boundary_hits);
                let key = format!("{BE_NAME}|{n}|{ext}|{b}|{}|{}|{p}|{}|{x}|{crafted}|{}", c.n_lwe, c.dist.name(), dir_name(dir), hex(&seeds.0[..4]));
                // input class (decided from the inputs alone) — keeps the per-op violation cap from mixing classes
                let vop = if b <= m + 1 {
                    "blind_execute:radix_le_log2_4d"
                } else if boundary_hits > 0 {
                    "blind_execute:ext_mask_on_boundary"
                } else {
                    "blind_execute"
                };
                // ---- the real blind rotation
                let mut res: GLWE<Vec<u8>> = GLWE::alloc_from_infos(&glwe_infos);
                res.data_mut().at_mut(0, 0).iter_mut().for_each(|v| *v = rng.next_i64() >> 20);
                if !probed_scratch {
                    // the advertised scratch size must be enough for the call it advertises
                    probed_scratch = true;
                    let mut exact: ScratchOwned<BE> = ScratchOwned::<BE>::alloc(declared_tmp);
                    let mut res2: GLWE<Vec<u8>> = GLWE::alloc_from_infos(&glwe_infos);
                    let r2 = guarded(|| brk_prepared.execute(&module, &mut res2, &lwe, &lut, exact.borrow()));
                    rep.case("blind_scratch", &format!("{BE_NAME}|{n}|{ext}|{b}|{}|{}", c.n_lwe, c.dist.name()), true);
                    if let Err(pn) = r2 {
                        let mut dsc = kdesc.clone();
                        dsc.put("declared_tmp_bytes", declared_tmp);
                        rep.violate("blind_scratch", dsc, format!("execute panics with exactly execute_tmp_bytes(block_size, ext) bytes of scratch: {pn}"));
                    }
                }
                let r = guarded(|| brk_prepared.execute(&module, &mut res, &lwe, &lut, scratch_br.borrow()));
                rep.case("blind_execute", &key, true);
                rep.sample_for_op(&format!("{BE_NAME}:blind:{}:ext{}", c.dist.name(), ext), || desc.clone());
                rep.count(if crafted { "blind_crafted_lwe" } else { "blind_library_lwe" }, 1);
                rep.count(&format!("blind_ext{ext}"), 1);
                rep.count(&format!("blind_{}", dir_name(dir)), 1);
                if boundary_hits > 0 {
                    rep.count("blind_cases_with_mask_on_extension_boundary", 1);
                }
                if let Err(pn) = r {
                    rep.violate(vop, desc, format!("panic: {pn}"));
                    continue;
                }
                // ---- exact phase
                let size_res = res.data().size();
                let w_res = size_res * b;
                let mut phase = vec![0u128; n];
                for j in 0..size_res {
                    let body = res.data().at(0, j);
                    let mut pj: Vec<i128> = body.iter().map(|v| *v as i128).collect();
                    for (col, s_col) in s_glwe_cols.iter().enumerate() {
                        let msk = res.data().at(col + 1, j);
                        for (u, su) in s_col.iter().enumerate() {
                            if *su == 0 {
                                continue;
                            }
                            for (v, mv) in msk.iter().enumerate() {
                                let t = u + v;
                                let prod = *mv as i128 * *su as i128;
                                if t < n {
                                    pj[t] += prod;
                                } else {
                                    pj[t - n] -= prod;
                                }
                            }
                        }
                    }
                    let sh = (size_res - 1 - j) * b;
                    for (o, v) in phase.iter_mut().zip(&pj) {
                        *o = o.wrapping_add((*v as u128) << sh);
                    }
                }
                let w = w_res.max(w_lut);
                let err_of = |r: i128| -> f64 {
                    let tr = model_rot(&t0, r, w_lut);
                    let mut worst = 0f64;
                    for j in 0..n {
                        let want = tr[j * ext] << (w - w_lut);
                        let got = (phase[j] & mask_w(w_res)) << (w - w_res);
                        let dlt = centre_w(got.wrapping_sub(want), w);
                        let e = (dlt.unsigned_abs() as f64) * (-(w as f64)).exp2();
                        if e > worst {
                            worst = e;
                        }
                    }
                    worst
                };
                let e0 = err_of(r0);
                let mut best = e0;
                if e0 > floor && (r_lo != r_hi) {
                    for r in r_lo..=r_hi {
                        best = best.min(err_of(r));
                    }
                    if best <= floor {
                        rep.count("blind_accepted_on_alternative_rounding", 1);
                    }
                }
                if r_lo != r_hi {
                    rep.count("blind_ambiguous_modswitch", 1);
                }
                if best <= floor {
                    rep.count(&format!("ok:{vop}"), 1);
                    rep.maxf("blind_noise_over_sigma_pred", best / sigma_pred);
                    rep.maxf(&format!("cal_sigma_ratio:{}:{}", if standard_path { "standard" } else if ext > 1 { "block_extended" } else { "block" }, BE_NAME), best / sigma_pred);
                    rep.maxf("blind_noise_over_floor", best / floor);
                    rep.maxf("blind_floor_over_resolution", floor / (-(k_msg as f64)).exp2());
                    continue;
                }
                // diagnose: which rotation (if any) does the result correspond to?
                let mut observed: Option<i64> = None;
                // (the scan is only for the report; capped so that a known defect class does not eat the budget)
                let scan = if rep.violation_count < 150 { 2 * d as i128 } else { 0 };
                for r in 0..scan {
                    if err_of(r) <= floor {
                        observed = Some(r as i64);
                        break;
                    }
                }
                desc.put("observed_rotation", observed.unwrap_or(-1));
                // diagnosis only (never used for the verdict): the index the library's own mod_switch_2n yields
                {
                    use poulpy_core::layouts::LWEToRef;
                    let mut l2n = vec![0i64; c.n_lwe + 1];
                    let ok = guarded(|| poulpy_bin_fhe::blind_rotation::mod_switch_2n(2 * d, &mut l2n, &lwe.to_ref(), dir)).is_ok();
                    if ok {
                        let li: i128 = l2n[0] as i128 + l2n[1..].iter().zip(&s_lwe).map(|(a, s)| *a as i128 * *s as i128).sum::<i128>();
                        desc.put("library_modswitch_index", li.rem_euclid(2 * d as i128) as i64);
                        let mut worst = 0i128;
                        let mut worst_i = 0usize;
                        for i in 0..=c.n_lwe {
                            let (p0, lo, hi) = mod_switch_own(&coeff(i), b, m, negate);
                            let dl = ((l2n[i] as i128 - p0).rem_euclid(2 * d as i128) + d as i128).rem_euclid(2 * d as i128) - d as i128;
                            if dl.abs() > worst.abs() {
                                worst = dl;
                                worst_i = i;
                            }
                        }
                        desc.put("modswitch_worst_coeff_delta", worst as i64);
                        desc.put("modswitch_worst_coeff_limbs", J::A(coeff(worst_i).iter().map(|x| J::I(*x as i128)).collect()));
                    }
                }
                desc.put("error_torus_log2", best.log2());
                rep.violate(
                    vop,
                    desc,
                    format!(
                        "decrypted accumulator differs from X^r·table for r = {} (harness mod-switch; admissible range [{}, {}]) by 2^{:.1} > noise floor 2^{:.1}; it matches rotation {:?}",
                        r0.rem_euclid(2 * d as i128),
                        r_lo,
                        r_hi,
                        best.log2(),
                        floor.log2(),
                        observed
                    ),
                );
            }
        }
    }
}
