// C19 — seed-compressed objects expand to exactly what full encryption would produce.
//
// For every compressed layout (GLWE, GGLWE, GGSW, switching / automorphism / tensor / GGLWE-to-GGSW keys, blind-rotation
// key; the LWE-related compressed keys and LWECompressed through serialised images, since the library has no compressed
// encryption for them):
//  (a) mask:   every mask column of every decompressed cell == the uniform digits regenerated from `Source::new(seed stored
//              for that cell)` — by the HAL sampler AND by an independent re-statement of it (next_u64 & (2^b-1)) - 2^(b-1);
//  (b) body:   exact phase(cell) - exact plaintext(cell) == the error regenerated from a second copy of the error stream,
//              cell by cell in the documented order, with zero residue; together with (a) and "all digits normalised" this
//              pins every byte of the cell;
//  (c) replay: where the encrypting secret can be handed to the public API (all but the automorphism key), the cell is
//              byte-identical to `glwe_encrypt_sk(pt_cell, sk, Source::new(stored seed), error stream at that cell)`;
//  (d) compress -> write_to -> read_from -> decompress gives the same cells, and write_to(read_from(x)) == x;
//  (e) the same inputs give byte-identical compressed and decompressed objects on every backend (layouts inside the FFT64
//      magnitude domain);
//  (f) the stored seeds are pairwise distinct and not all-zero (a compressed object whose seeds were not stored cannot be
//      expanded by anybody else).

const CKINDS: [Kind; 8] = [Kind::GlweC, Kind::GglweC, Kind::GgswC, Kind::KskC, Kind::AtkC, Kind::TskC, Kind::G2gC, Kind::BrkC];

fn ggsw_order(kind: Kind) -> bool {
    matches!(kind, Kind::GgswC | Kind::BrkC)
}

/// indices of the cells in the order in which the library encrypts them (= order of the error stream)
fn encryption_order(kind: Kind, obj: &Obj) -> Vec<usize> {
    let mut idx: Vec<usize> = (0..obj.cells.len()).filter(|i| obj.cells[*i].tag.0 != usize::MAX).collect();
    if ggsw_order(kind) {
        idx.sort_by_key(|i| obj.cells[*i].tag); // (sub, row, col)
    } else {
        idx.sort_by_key(|i| {
            let t = obj.cells[*i].tag;
            (t.0, t.2, t.1) // (sub, col, row): column outer, row inner
        });
    }
    idx
}

fn viol(rep: &mut Report, kind: Kind, l: &Lay, inp: &Inputs, check: &str, cell: Option<(usize, usize, usize)>, detail: String) {
    let mut d = l.desc(kind);
    d.put("check", check);
    d.put("inputs", format!("{:?}", inp));
    if let Some(c) = cell {
        d.put("cell", format!("{:?}", c));
        d.put("cell_col", c.2);
    }
    rep.count(&format!("viol:{}:{check}", kind.name()), 1);
    rep.violate(&format!("c19:{check}"), d, detail);
}

/// re-read a serialised compressed object into a fresh receiver, decompress it and re-serialise it
fn reload(module: &Module<BE>, kind: Kind, l: &Lay, bytes: &[u8]) -> Result<(Vec<Ct>, Vec<u8>), String> {
    let mut cur = std::io::Cursor::new(bytes);
    let ioerr = |e: std::io::Error| format!("read_from failed on the library's own output: {e}");
    let cts = |cells: Vec<Cell>| cells.into_iter().map(|c| c.ct).collect::<Vec<Ct>>();
    let dummy_in = vec![Vec::<i64>::new(); 8];
    match kind {
        Kind::GlweC => {
            let layout = l.glwe_layout();
            let mut c: GLWECompressed<Vec<u8>> = GLWECompressed::alloc_from_infos(&layout);
            c.read_from(&mut cur).map_err(ioerr)?;
            let mut g: GLWE<Vec<u8>> = GLWE::alloc_from_infos(&layout);
            guarded(|| module.decompress_glwe(&mut g, &c))?;
            Ok((vec![glwe_ct(&g)], ser(&c)))
        }
        Kind::GglweC => {
            let layout = l.gglwe_layout(l.rank_in);
            let mut c: GGLWECompressed<Vec<u8>> = GGLWECompressed::alloc_from_infos(&layout);
            c.read_from(&mut cur).map_err(ioerr)?;
            let mut g: GGLWE<Vec<u8>> = GGLWE::alloc_from_infos(&layout);
            guarded(|| module.decompress_gglwe(&mut g, &c))?;
            Ok((cts(gglwe_cells(&g, 0, 0, &dummy_in, l.dsize, None)), ser(&c)))
        }
        Kind::GgswC => {
            let layout = l.ggsw_layout();
            let mut c: GGSWCompressed<Vec<u8>> = GGSWCompressed::alloc_from_infos(&layout);
            c.read_from(&mut cur).map_err(ioerr)?;
            let mut g: GGSW<Vec<u8>> = GGSW::alloc_from_infos(&layout);
            guarded(|| module.decompress_ggsw(&mut g, &c))?;
            Ok((cts(ggsw_cells(&g, 0, 0, &[], l.dsize, None)), ser(&c)))
        }
        Kind::KskC => {
            let layout = l.gglwe_layout(l.rank_in);
            let mut c: GLWESwitchingKeyCompressed<Vec<u8>> = GLWESwitchingKeyCompressed::alloc_from_infos(&layout);
            c.read_from(&mut cur).map_err(ioerr)?;
            let mut g: GLWESwitchingKey<Vec<u8>> = GLWESwitchingKey::alloc_from_infos(&layout);
            guarded(|| module.decompress_glwe_switching_key(&mut g, &c))?;
            Ok((cts(gglwe_cells(&g, 0, 0, &dummy_in, l.dsize, None)), ser(&c)))
        }
        Kind::AtkC => {
            let layout = l.gglwe_layout(l.rank);
            let mut c: GLWEAutomorphismKeyCompressed<Vec<u8>> = GLWEAutomorphismKeyCompressed::alloc_from_infos(&layout);
            c.read_from(&mut cur).map_err(ioerr)?;
            let mut g: GLWEAutomorphismKey<Vec<u8>> = GLWEAutomorphismKey::alloc_from_infos(&layout);
            guarded(|| module.decompress_automorphism_key(&mut g, &c))?;
            if g.p() != l.p {
                return Err(format!("Galois element lost: {} after the round trip, {} before", g.p(), l.p));
            }
            Ok((cts(gglwe_cells(&g, 0, 0, &dummy_in, l.dsize, None)), ser(&c)))
        }
        Kind::TskC => {
            let layout = l.gglwe_layout(l.rank);
            let mut c: GLWETensorKeyCompressed<Vec<u8>> = GLWETensorKeyCompressed::alloc_from_infos(&layout);
            c.read_from(&mut cur).map_err(ioerr)?;
            let mut g: GLWETensorKey<Vec<u8>> = GLWETensorKey::alloc_from_infos(&layout);
            guarded(|| module.decompress_tensor_key(&mut g, &c))?;
            Ok((cts(gglwe_cells(&g, 0, 0, &dummy_in, l.dsize, None)), ser(&c)))
        }
        Kind::G2gC => {
            let layout = l.gglwe_layout(l.rank);
            let mut c: GGLWEToGGSWKeyCompressed<Vec<u8>> = GGLWEToGGSWKeyCompressed::alloc_from_infos(&layout);
            c.read_from(&mut cur).map_err(ioerr)?;
            let mut g: GGLWEToGGSWKey<Vec<u8>> = GGLWEToGGSWKey::alloc_from_infos(&layout);
            for i in 0..l.rank {
                guarded(|| module.decompress_gglwe(g.at_mut(i), c.at(i)))?;
            }
            let mut v = Vec::new();
            for i in 0..l.rank {
                v.extend(cts(gglwe_cells(g.at(i), i, 0, &dummy_in, l.dsize, None)));
            }
            Ok((v, ser(&c)))
        }
        Kind::BrkC => {
            let layout = BlindRotationKeyLayout { n_glwe: Degree(l.n as u32), n_lwe: Degree(l.n_lwe as u32), base2k: Base2K(l.b as u32), k: TorusPrecision(l.k as u32), dnum: Dnum(l.dnum as u32), rank: Rank(l.rank as u32) };
            let mut c: BlindRotationKeyCompressed<Vec<u8>, CGGI> = BlindRotationKeyCompressed::alloc(&layout);
            c.read_from(&mut cur).map_err(ioerr)?;
            let again = ser(&c);
            let ggsw_layout = l.ggsw_layout();
            let mut cur2 = std::io::Cursor::new(&again[16..]);
            let mut v = Vec::new();
            for i in 0..l.n_lwe {
                let mut gc: GGSWCompressed<Vec<u8>> = GGSWCompressed::alloc_from_infos(&ggsw_layout);
                gc.read_from(&mut cur2).map_err(|e| format!("harness: compressed GGSW {i}: {e}"))?;
                let mut g: GGSW<Vec<u8>> = GGSW::alloc_from_infos(&ggsw_layout);
                guarded(|| module.decompress_ggsw(&mut g, &gc))?;
                v.extend(cts(ggsw_cells(&g, i, 0, &[], 1, None)));
            }
            Ok((v, again))
        }
        _ => unreachable!(),
    }
}

fn bytes_of_i64(v: &[i64]) -> &[u8] {
    unsafe { std::slice::from_raw_parts(v.as_ptr() as *const u8, v.len() * 8) }
}

fn one_object(module: &Module<BE>, kind: Kind, l: &Lay, inp: &Inputs, rep: &mut Report, xbackend: bool) {
    let name = kind.name();
    rep.case(&format!("expand_{name}"), &format!("{}|{}", l.key(kind), xbackend), true);
    rep.sample_for_op(&format!("{BE_NAME}:{name}"), || l.desc(kind));
    let obj = match build(module, kind, l, inp, rep, "c19") {
        Ok(o) => o,
        Err(e) => {
            viol(rep, kind, l, inp, "panic", None, format!("panic: {e}"));
            return;
        }
    };
    rep.count(&format!("objects:{name}"), 1);
    let order = encryption_order(kind, &obj);
    let noise = l.noise();
    let infos = noise.infos();
    let (nlimb, _) = noise.limb_scale(l.b);
    let n = l.n;

    // ---------- (f) stored seeds
    {
        let mut seen: HashMap<[u8; 32], (usize, usize, usize)> = HashMap::new();
        for &i in &order {
            let c = &obj.cells[i];
            match c.seed {
                None => {
                    rep.inconclusive.push(format!("harness: compressed cell without a seed ({name})"));
                    return;
                }
                Some(s) => {
                    // a fresh 256-bit seed is all-zero / repeated with probability 2^-256
                    if s == [0u8; 32] {
                        viol(rep, kind, l, inp, "seed_not_stored", Some(c.tag), format!("cell {:?}: the stored seed is all-zero although a random master seed was given", c.tag));
                        break;
                    }
                    if let Some(prev) = seen.insert(s, c.tag) {
                        viol(rep, kind, l, inp, "seed_repeated", Some(c.tag), format!("cells {:?} and {:?} store the same seed", prev, c.tag));
                        break;
                    }
                }
            }
        }
    }

    // ---------- (a) (b) (c) cell by cell in encryption order
    let key = main_key(module, l, inp);
    let can_replay = kind != Kind::AtkC;
    let mut xe_model = Source::new(inp.seed_xe()); // feeds the regenerated errors
    let mut xe_replay = Source::new(inp.seed_xe()); // feeds the public replays
    let need = module.glwe_encrypt_sk_tmp_bytes(&l.glwe_layout());
    let mut sw = roomy_scratch(need);
    let glwe_pt = if kind == Kind::GlweC { Some(glwe_message(l, inp)) } else { None };
    let mut mask_bad = false;
    let mut body_bad = false;
    let mut replay_bad = false;
    for &i in &order {
        let c = &obj.cells[i];
        let seed = c.seed.unwrap();
        // for the GLWE kind the analysed cell has the message subtracted; the untouched limbs are in the `raw` twin
        let raw: &Ct = if kind == Kind::GlweC { &obj.cells.iter().find(|x| x.tag.0 == usize::MAX).unwrap().ct } else { &c.ct };
        rep.count("cells_checked", 1);
        // (a) mask
        if !mask_bad {
            let mut hal = VecZnx::alloc(n, raw.cols.max(1), raw.size);
            let mut s1 = Source::new(seed);
            let mut s2 = Source::new(seed);
            for col in 1..raw.cols {
                module.vec_znx_fill_uniform(l.b, &mut hal, col, &mut s1);
                let want_hal: Vec<i64> = (0..raw.size).flat_map(|j| hal.at(col, j).to_vec()).collect();
                let want_model = model_uniform_column(&mut s2, l.b, n, raw.size);
                let got = raw.col_digits(col);
                if got != want_hal || got != want_model {
                    let which = if got != want_model { "the re-stated uniform sampler" } else { "vec_znx_fill_uniform" };
                    viol(rep, kind, l, inp, "mask_not_from_stored_seed", Some(c.tag), format!("cell {:?} mask column {col} differs from {which} run on Source::new(stored seed {})", c.tag, seed_hex(&seed)));
                    mask_bad = true;
                    break;
                }
                rep.count("mask_columns_checked", 1);
            }
        }
        // (b) body through the exact phase: residue against the regenerated error must be zero
        {
            let mut ez = VecZnx::alloc(n, 1, raw.size);
            module.vec_znx_add_normal(l.b, &mut ez, 0, infos, &mut xe_model);
            let want: Vec<i64> = ez.at(0, nlimb).to_vec();
            let got = obj.errors(c);
            if !body_bad && got != want {
                let pos = got.iter().zip(&want).position(|(a, b)| a != b).unwrap_or(0);
                viol(rep, kind, l, inp, "body_not_standard_encryption", Some(c.tag), format!("cell {:?}: phase - plaintext = {} at coefficient {pos}, the error stream gives {} there (units of the last limb)", c.tag, got[pos], want[pos]));
                body_bad = true;
            }
            if raw.digit_out_of_range().is_some() && !body_bad {
                viol(rep, kind, l, inp, "digit_out_of_range", Some(c.tag), format!("cell {:?}: a digit is outside [-2^(b-1), 2^(b-1))", c.tag));
                body_bad = true;
            }
        }
        // (c) public replay of the standard encryption
        {
            let pt_col = c.m.as_ref().map(|m| m.2).unwrap_or(0);
            if can_replay && pt_col == 0 {
                let pt = match (&glwe_pt, &c.m) {
                    (Some(p), _) => GLWEPlaintext { data: p.data.clone(), base2k: p.base2k },
                    (None, Some((m, limb, _))) => cell_plaintext(n, l.b, raw.size, m, *limb),
                    _ => unreachable!(),
                };
                let mut ct: GLWE<Vec<u8>> = GLWE::alloc_from_infos(&l.glwe_layout());
                let r = guarded(|| module.glwe_encrypt_sk(&mut ct, &pt, &key.prep, &infos, &mut xe_replay, &mut Source::new(seed), sw.scratch()));
                match r {
                    Err(e) => {
                        rep.inconclusive.push(format!("harness: public replay panicked ({name}): {e}"));
                        return;
                    }
                    Ok(()) => {
                        rep.count("cells_replayed_publicly", 1);
                        if !replay_bad && glwe_ct(&ct) != *raw {
                            let want = glwe_ct(&ct);
                            let pos = want.d.iter().zip(&raw.d).position(|(a, b)| a != b).unwrap_or(0);
                            let (limb, col) = ((pos / n) / raw.cols, (pos / n) % raw.cols);
                            viol(rep, kind, l, inp, "differs_from_public_encryption", Some(c.tag), format!("cell {:?}: first difference at column {col} limb {limb} coefficient {} (decompressed {} vs standard encryption {})", c.tag, pos % n, raw.d[pos], want.d[pos]));
                            replay_bad = true;
                        }
                    }
                }
            } else {
                // keep the replay stream aligned
                let mut ez = VecZnx::alloc(n, 1, raw.size);
                module.vec_znx_add_normal(l.b, &mut ez, 0, infos, &mut xe_replay);
            }
        }
    }

    // ---------- (d) serialisation round trip
    let bytes = obj.compressed_bytes.clone().unwrap_or_default();
    match reload(module, kind, l, &bytes) {
        Err(e) => viol(rep, kind, l, inp, "serialisation_round_trip", None, format!("compress -> write_to -> read_from -> decompress: {e}")),
        Ok((cells, again)) => {
            rep.count("round_trips", 1);
            if again != bytes {
                viol(rep, kind, l, inp, "serialisation_round_trip", None, "write_to(read_from(bytes)) != bytes".into());
            }
            let direct: Vec<&Ct> = if kind == Kind::GlweC { obj.cells.iter().filter(|c| c.tag.0 == usize::MAX).map(|c| &c.ct).collect() } else { obj.cells.iter().map(|c| &c.ct).collect() };
            if cells.len() != direct.len() || cells.iter().zip(&direct).any(|(a, b)| a != *b) {
                viol(rep, kind, l, inp, "serialisation_round_trip", None, "decompress(read_from(write_to(c))) differs from decompress(c)".into());
            }
        }
    }

    // ---------- (e) identical bytes on every backend
    if xbackend {
        let mut h = fnv_bytes(&bytes);
        for c in &obj.cells {
            h = h.rotate_left(7) ^ fnv_bytes(bytes_of_i64(&c.ct.d));
        }
        let k = format!("{}|{:?}", l.key(kind).split_once('|').map(|x| x.1.to_string()).unwrap_or_default(), inp);
        let mut store = crate::c19_store::STORE.lock().unwrap();
        let map = store.get_or_insert_with(HashMap::new);
        match map.get(&k) {
            None => {
                map.insert(k, (BE_NAME.to_string(), h));
            }
            Some((other, h0)) => {
                rep.count("cross_backend_compared", 1);
                rep.case("cross_backend", &format!("{k}|{BE_NAME}"), true);
                if *h0 != h {
                    let mut d = l.desc(kind);
                    d.put("check", "backends_differ");
                    d.put("backend_b", other.as_str());
                    d.put("inputs", format!("{:?}", inp));
                    rep.violate("c19:backends_differ", d, format!("compressed / decompressed bytes differ between {other} and {BE_NAME} for identical inputs and seeds"));
                }
            }
        }
    }
}

// ---------------------------------------------------------------------------------------------
// LWE-related compressed layouts (no compressed encryption exists for them: they are fed serialised images)
// ---------------------------------------------------------------------------------------------
fn lwe_related(module: &Module<BE>, rng: &mut Rng, rep: &mut Report) {
    // wrappers around GLWESwitchingKeyCompressed: image = a compressed GLWE switching key of the admissible shape
    for which in ["lwe_switching_key_compressed", "glwe_to_lwe_key_compressed", "lwe_to_glwe_key_compressed"] {
        let mut l = Lay::random(Kind::KskC, rng, false);
        l.dsize = 1;
        l.size = l.dnum + rng.usize_in(0, 1);
        if l.size < 2 {
            l.size = 2;
        }
        while l.size * l.b < 12 {
            l.size += 1;
        }
        l.k = rng.usize_in(((l.size - 1) * l.b + 1).max(10), l.size * l.b);
        match which {
            "lwe_switching_key_compressed" => {
                l.rank = 1;
                l.rank_in = 1;
            }
            "glwe_to_lwe_key_compressed" => l.rank = 1,
            _ => l.rank_in = 1,
        }
        let module = if l.n == module.n() { module } else { cached_module(l.n) };
        let inp = Inputs::from(rng.next_u64());
        let mut d = l.desc(Kind::KskC);
        d.put("kind", which);
        rep.case(&format!("expand_{which}"), &l.key(Kind::KskC), true);
        let obj = match build(module, Kind::KskC, &l, &inp, rep, "c19") {
            Ok(o) => o,
            Err(e) => {
                rep.violate("c19:panic", d, format!("panic while building the image: {e}"));
                continue;
            }
        };
        let bytes = obj.compressed_bytes.clone().unwrap();
        let (deg, b, k, dnum) = (Degree(l.n as u32), Base2K(l.b as u32), TorusPrecision(l.k as u32), Dnum(l.dnum as u32));
        let dummy = vec![Vec::<i64>::new(); 4];
        let r: Result<(Vec<Ct>, Vec<u8>), String> = (|| {
            let mut cur = std::io::Cursor::new(&bytes);
            let io = |e: std::io::Error| format!("read_from: {e}");
            match which {
                "lwe_switching_key_compressed" => {
                    let mut c: LWESwitchingKeyCompressed<Vec<u8>> = LWESwitchingKeyCompressed::alloc(deg, b, k, dnum);
                    c.read_from(&mut cur).map_err(io)?;
                    let mut g: LWESwitchingKey<Vec<u8>> = LWESwitchingKey::alloc(deg, b, k, dnum);
                    guarded(|| module.decompress_gglwe(&mut g, &c))?; // decompress_lwe_switching_key cannot be instantiated: the compressed type lacks GLWESwitchingKeyDegrees
                    Ok((gglwe_cells(&g, 0, 0, &dummy, 1, None).into_iter().map(|c| c.ct).collect(), ser(&c)))
                }
                "glwe_to_lwe_key_compressed" => {
                    let mut c: GLWEToLWESwitchingKeyCompressed<Vec<u8>> = GLWEToLWESwitchingKeyCompressed::alloc(deg, b, k, Rank(l.rank_in as u32), dnum);
                    c.read_from(&mut cur).map_err(io)?;
                    let mut g: GLWEToLWEKey<Vec<u8>> = GLWEToLWEKey::alloc(deg, b, k, Rank(l.rank_in as u32), dnum);
                    guarded(|| module.decompress_gglwe(&mut g, &c))?; // idem for decompress_glwe_to_lwe_key
                    Ok((gglwe_cells(&g, 0, 0, &dummy, 1, None).into_iter().map(|c| c.ct).collect(), ser(&c)))
                }
                _ => {
                    let mut c: LWEToGLWEKeyCompressed<Vec<u8>> = LWEToGLWEKeyCompressed::alloc(deg, b, k, Rank(l.rank as u32), dnum);
                    c.read_from(&mut cur).map_err(io)?;
                    let mut g: LWEToGLWEKey<Vec<u8>> = LWEToGLWEKey::alloc(deg, b, k, Rank(l.rank as u32), dnum);
                    guarded(|| module.decompress_gglwe(&mut g, &c))?; // idem for decompress_lwe_to_glwe_key
                    Ok((gglwe_cells(&g, 0, 0, &dummy, 1, None).into_iter().map(|c| c.ct).collect(), ser(&c)))
                }
            }
        })();
        rep.count(&format!("objects:{which}"), 1);
        match r {
            Err(e) => {
                d.put("check", "lwe_wrapper_expand");
                rep.violate("c19:lwe_wrapper_expand", d, format!("{which}: {e}"));
            }
            Ok((cells, again)) => {
                // the decompressed GLWE switching key was verified cell by cell by `one_object`; the wrapper must expand to the same cells
                let direct: Vec<&Ct> = obj.cells.iter().map(|c| &c.ct).collect();
                if again != bytes || cells.len() != direct.len() || cells.iter().zip(&direct).any(|(a, b)| a != *b) {
                    d.put("check", "lwe_wrapper_expand");
                    rep.violate("c19:lwe_wrapper_expand", d, format!("{which}: expansion differs from the expansion of the same image as a GLWE switching key (or the image is not reproduced by write_to)"));
                }
            }
        }
    }
    // LWECompressed: body limbs + seed; the mask must be what lwe_encrypt_sk draws from Source::new(seed)
    {
        let b = rng.usize_in(1, 52);
        let size = rng.usize_in(1, 4);
        let k = size * b - rng.usize_in(0, b - 1);
        let seed = rng.seed32();
        let body: Vec<i64> = (0..size).map(|_| rng.signed_bits(b)).collect();
        let mut img: Vec<u8> = Vec::new();
        img.extend_from_slice(&(k as u32).to_le_bytes());
        img.extend_from_slice(&(b as u32).to_le_bytes());
        img.extend_from_slice(&seed);
        for v in [1u64, 1, size as u64, size as u64, (size * 8) as u64] {
            img.extend_from_slice(&v.to_le_bytes());
        }
        for x in &body {
            img.extend_from_slice(&x.to_le_bytes());
        }
        let d = jo! {"backend" => BE_NAME, "kind" => "lwe_compressed", "base2k" => b, "size" => size, "k" => k, "seed" => hex(&seed)};
        rep.case("expand_lwe_compressed", &format!("{BE_NAME}|{b}|{size}|{k}"), true);
        rep.count("objects:lwe_compressed", 1);
        let r: Result<(), String> = (|| {
            let mut c: LWECompressed<Vec<u8>> = LWECompressed::alloc(Base2K(b as u32), TorusPrecision(k as u32));
            c.read_from(&mut std::io::Cursor::new(&img)).map_err(|e| format!("read_from: {e}"))?;
            if ser(&c) != img {
                return Err("write_to(read_from(image)) != image".into());
            }
            // the only LWE dimension the compressed layout can describe is 1 (its body vector has one coefficient)
            let mut lwe: LWE<Vec<u8>> = LWE::alloc(Degree(1), Base2K(b as u32), TorusPrecision(k as u32));
            guarded(|| module.decompress_lwe(&mut lwe, &c))?;
            // standard encryption with the same mask stream
            let layout = LWELayout { n: Degree(1), k: TorusPrecision(k as u32), base2k: Base2K(b as u32) };
            let lk = gen_lwe_key(1, SDist::BinaryProb(0.5), rng.seed32());
            let pt: LWEPlaintext<Vec<u8>> = LWEPlaintext::alloc(Base2K(b as u32), TorusPrecision(k as u32));
            let mut std_ct: LWE<Vec<u8>> = LWE::alloc_from_infos(&layout);
            let mut sw = roomy_scratch(module.lwe_encrypt_sk_tmp_bytes(&layout));
            guarded(|| module.lwe_encrypt_sk(&mut std_ct, &pt, &lk.sk, &NoiseP::default_at(k).infos(), &mut Source::new(rng.seed32()), &mut Source::new(seed), sw.scratch()))?;
            let (got, want) = (Ct::from_znx(lwe.data(), b), Ct::from_znx(std_ct.data(), b));
            for j in 0..size {
                if got.poly(0, j)[0] != body[j] {
                    return Err(format!("body limb {j} not copied"));
                }
                if got.poly(0, j)[1..] != want.poly(0, j)[1..] {
                    return Err(format!("mask of limb {j} differs from the mask lwe_encrypt_sk draws from Source::new(seed)"));
                }
            }
            Ok(())
        })();
        if let Err(e) = r {
            rep.violate("c19:lwe_compressed", d, e);
        }
    }
}

pub fn run(cfg: &Cfg, rep: &mut Report) {
    let only: Option<Kind> = cfg.extra.get("kind").and_then(|k| Kind::from_name(k));
    // ---- (1) objects with the backend's own admissible radix range
    let mut rng = cfg.rng(&format!("c19-{BE_NAME}"));
    let per_kind = cfg.budget(16 * 480 * 8 * 4, 16 * 8000 * 8 * 4) / (8 * 4);
    for kind in CKINDS {
        if only.is_some() && only != Some(kind) {
            continue;
        }
        for it in 0..per_kind {
            let l = Lay::random(kind, &mut rng, it % 24 == 23);
            let inp = Inputs::from(rng.next_u64());
            one_object(cached_module(l.n), kind, &l, &inp, rep, false);
        }
    }
    // ---- (2) the same objects on every backend (stream independent of the backend, radix inside the FFT64 domain)
    let mut rx = cfg.rng("c19-all-backends");
    for kind in CKINDS {
        if only.is_some() && only != Some(kind) {
            continue;
        }
        for it in 0..(per_kind / 2).max(1) {
            let l = Lay::random_with(kind, &mut rx, it % 24 == 23, true);
            let inp = Inputs::from(rx.next_u64());
            one_object(cached_module(l.n), kind, &l, &inp, rep, true);
        }
    }
    // ---- (3) LWE-related compressed layouts
    if only.is_none() {
        for _ in 0..(per_kind / 2).max(1) {
            lwe_related(cached_module(64), &mut rng, rep);
        }
    }
}
