// C02 — noise-free ciphertext operations commute exactly with decryption.
// Oracle: every public GLWE/GGSW linear op is modelled COLUMN-WISE on exact torus polynomials (big integers scaled by 2^W);
// a missing operand column counts as zero. Tolerance: one unit of the result's last limb per truncated operand, exact otherwise.
// When nothing is truncated, phase(result, s) = op(phase(operands, s)) is checked as well for a random clear secret.
// Ciphertexts are random limb vectors: no key, no encryption.

#[derive(Clone, Copy, Debug, PartialEq, Eq)]
enum Op {
    AddInto,
    AddAssign,
    Sub,
    SubAssign,
    SubNegateAssign,
    Negate,
    NegateAssign,
    Copy,
    Rotate,
    RotateAssign,
    MulXp,
    MulXpAssign,
    Rsh,
    LshAssign,
    Lsh,
    LshAdd,
    LshSub,
    Normalize,
    NormalizeAssign,
    CrossRef,
    CrossMut,
}

const ALL_OPS: &[Op] = &[
    Op::AddInto,
    Op::AddAssign,
    Op::Sub,
    Op::SubAssign,
    Op::SubNegateAssign,
    Op::Negate,
    Op::NegateAssign,
    Op::Copy,
    Op::Rotate,
    Op::RotateAssign,
    Op::MulXp,
    Op::MulXpAssign,
    Op::Rsh,
    Op::LshAssign,
    Op::Lsh,
    Op::LshAdd,
    Op::LshSub,
    Op::Normalize,
    Op::NormalizeAssign,
    Op::CrossRef,
    Op::CrossMut,
];

impl Op {
    fn name(self) -> &'static str {
        match self {
            Op::AddInto => "glwe_add_into",
            Op::AddAssign => "glwe_add_assign",
            Op::Sub => "glwe_sub",
            Op::SubAssign => "glwe_sub_assign",
            Op::SubNegateAssign => "glwe_sub_negate_assign",
            Op::Negate => "glwe_negate",
            Op::NegateAssign => "glwe_negate_assign",
            Op::Copy => "glwe_copy",
            Op::Rotate => "glwe_rotate",
            Op::RotateAssign => "glwe_rotate_assign",
            Op::MulXp => "glwe_mul_xp_minus_one",
            Op::MulXpAssign => "glwe_mul_xp_minus_one_assign",
            Op::Rsh => "glwe_rsh",
            Op::LshAssign => "glwe_lsh_assign",
            Op::Lsh => "glwe_lsh",
            Op::LshAdd => "glwe_lsh_add",
            Op::LshSub => "glwe_lsh_sub",
            Op::Normalize => "glwe_normalize",
            Op::NormalizeAssign => "glwe_normalize_assign",
            Op::CrossRef => "glwe_maybe_cross_normalize_to_ref",
            Op::CrossMut => "glwe_maybe_cross_normalize_to_mut",
        }
    }
    fn uses_a(self) -> bool {
        !matches!(self, Op::NegateAssign | Op::RotateAssign | Op::MulXpAssign | Op::Rsh | Op::LshAssign | Op::NormalizeAssign)
    }
    fn uses_b(self) -> bool {
        matches!(self, Op::AddInto | Op::Sub)
    }
    /// previous content of the result is an operand
    fn uses_r(self) -> bool {
        matches!(
            self,
            Op::AddAssign
                | Op::SubAssign
                | Op::SubNegateAssign
                | Op::NegateAssign
                | Op::RotateAssign
                | Op::MulXpAssign
                | Op::Rsh
                | Op::LshAssign
                | Op::LshAdd
                | Op::LshSub
                | Op::NormalizeAssign
        )
    }
    fn has_rot(self) -> bool {
        matches!(self, Op::Rotate | Op::RotateAssign | Op::MulXp | Op::MulXpAssign)
    }
    fn has_shift(self) -> bool {
        matches!(self, Op::Rsh | Op::LshAssign | Op::Lsh | Op::LshAdd | Op::LshSub)
    }
    fn cross(self) -> bool {
        matches!(self, Op::Normalize | Op::CrossRef | Op::CrossMut)
    }
    /// out-of-place sibling computing the same function (for the assign-vs-out-of-place agreement check)
    fn sibling(self) -> Option<Op> {
        match self {
            Op::AddAssign => Some(Op::AddInto),
            Op::SubAssign | Op::SubNegateAssign => Some(Op::Sub),
            Op::NegateAssign => Some(Op::Negate),
            Op::RotateAssign => Some(Op::Rotate),
            Op::MulXpAssign => Some(Op::MulXp),
            Op::LshAssign => Some(Op::Lsh),
            Op::NormalizeAssign => Some(Op::Normalize),
            _ => None,
        }
    }
}

#[derive(Clone, Debug)]
struct Case {
    op: Op,
    n: usize,
    b: usize,   // base2k of res (and of every operand except for cross-radix ops)
    a_b: usize, // base2k of a
    r_size: usize,
    a_size: usize,
    b_size: usize,
    r_rank: usize,
    a_rank: usize,
    b_rank: usize,
    rot: i64,
    shift: usize,
    cls_a: &'static str,
    cls_b: &'static str,
    cls_r: &'static str,
}

impl Case {
    fn r_bits(&self) -> usize {
        self.r_size * self.b
    }
    fn a_bits(&self) -> usize {
        self.a_size * self.a_b
    }
    /// number of units of the result's last limb allowed on a column that exists in a (x) / in b (y)
    fn tol_units(&self, col: usize) -> u32 {
        let in_a = self.op.uses_a() && col <= self.a_rank;
        let in_b = self.op.uses_b() && col <= self.b_rank;
        let mut t = 0;
        match self.op {
            Op::Lsh | Op::LshAdd | Op::LshSub => {
                if in_a && self.a_bits() as i64 - self.shift as i64 > self.r_bits() as i64 {
                    t += 1;
                }
            }
            Op::Rsh => {
                if self.shift > 0 {
                    t += 1;
                }
            }
            Op::LshAssign | Op::NormalizeAssign | Op::NegateAssign | Op::RotateAssign | Op::MulXpAssign => {}
            Op::MulXp => {
                // the truncated operand appears in two terms (X^k a and -a)
                if in_a && self.a_bits() > self.r_bits() {
                    t += 2;
                }
            }
            _ => {
                if in_a && self.a_bits() > self.r_bits() {
                    t += 1;
                }
                if in_b && self.b_size * self.b > self.r_bits() {
                    t += 1;
                }
            }
        }
        t
    }
    fn truncating(&self) -> bool {
        (0..=self.r_rank).any(|c| self.tol_units(c) > 0)
    }
    fn class(&self) -> &'static str {
        if self.op.uses_a() && self.r_rank > self.a_rank {
            "res_rank_gt_a_rank"
        } else if self.op.uses_b() && self.r_rank > self.b_rank {
            "res_rank_gt_b_rank"
        } else if self.op.cross() && self.a_b != self.b {
            "cross_radix"
        } else if self.truncating() {
            "truncating"
        } else {
            "plain"
        }
    }
    fn desc(&self) -> J {
        jo! {"backend" => BE_NAME, "op" => self.op.name(), "n" => self.n, "res_base2k" => self.b, "a_base2k" => self.a_b,
        "res_size" => self.r_size, "a_size" => self.a_size, "b_size" => self.b_size, "res_rank" => self.r_rank, "a_rank" => self.a_rank,
        "b_rank" => self.b_rank, "rot" => self.rot, "shift" => self.shift, "class_a" => self.cls_a, "class_b" => self.cls_b,
        "class_res" => self.cls_r, "truncating" => self.truncating(), "class" => self.class(), "offset" => 0}
    }
    fn key(&self) -> String {
        format!(
            "{BE_NAME}|{}|{}|{}|{}|{}|{}|{}|{}|{}|{}|{}|{}",
            self.op.name(),
            self.n,
            self.b,
            self.a_b,
            self.r_size,
            self.a_size,
            self.b_size,
            self.r_rank,
            self.a_rank,
            self.b_rank,
            self.rot.rem_euclid(2 * self.n as i64),
            self.shift
        )
    }
}

/// the operation on exact polynomials (scaled by 2^w, unreduced): x = operand a (or 0), y = operand b (or 0), r = previous result
fn model(op: Op, rot: i64, shift: usize, x: &Poly, y: &Poly, r: &Poly) -> Poly {
    match op {
        Op::AddInto => poly_add(x, y),
        Op::AddAssign => poly_add(r, x),
        Op::Sub => poly_sub(x, y),
        Op::SubAssign => poly_sub(r, x),
        Op::SubNegateAssign => poly_sub(x, r),
        Op::Negate => poly_neg(x),
        Op::NegateAssign => poly_neg(r),
        Op::Copy | Op::Normalize | Op::CrossRef | Op::CrossMut => x.clone(),
        Op::NormalizeAssign => r.clone(),
        Op::Rotate => rotate_big(x, rot),
        Op::RotateAssign => rotate_big(r, rot),
        Op::MulXp => poly_sub(&rotate_big(x, rot), x),
        Op::MulXpAssign => poly_sub(&rotate_big(r, rot), r),
        // w leaves at least `shift` zero low bits, so the division is exact
        Op::Rsh => r.iter().map(|v| v >> shift).collect(),
        Op::LshAssign => poly_shl(r, shift),
        Op::Lsh => poly_shl(x, shift),
        Op::LshAdd => poly_add(r, &poly_shl(x, shift)),
        Op::LshSub => poly_sub(r, &poly_shl(x, shift)),
    }
}

fn scratch_bytes(module: &Module<BE>) -> usize {
    module
        .glwe_rotate_tmp_bytes()
        .max(module.glwe_shift_tmp_bytes())
        .max(module.glwe_normalize_tmp_bytes())
        .max(module.vec_znx_mul_xp_minus_one_assign_tmp_bytes())
}

/// run the library op. `res` holds the previous content for ops that use it. Returns the columns of the produced view for Cross* ops.
fn call(module: &Module<BE>, c: &Case, res: &mut GLWE<Vec<u8>>, a: &mut GLWE<Vec<u8>>, b: &GLWE<Vec<u8>>, w: usize, sc: &mut Scratch<BE>) -> Option<(Vec<Poly>, usize, usize)> {
    match c.op {
        Op::AddInto => module.glwe_add_into(res, a, b),
        Op::AddAssign => module.glwe_add_assign(res, a),
        Op::Sub => module.glwe_sub(res, a, b),
        Op::SubAssign => module.glwe_sub_assign(res, a),
        Op::SubNegateAssign => module.glwe_sub_negate_assign(res, a),
        Op::Negate => module.glwe_negate(res, a),
        Op::NegateAssign => module.glwe_negate_assign(res),
        Op::Copy => module.glwe_copy(res, a),
        Op::Rotate => module.glwe_rotate(c.rot, res, a),
        Op::RotateAssign => module.glwe_rotate_assign(c.rot, res, sc),
        Op::MulXp => module.glwe_mul_xp_minus_one(c.rot, res, a),
        Op::MulXpAssign => module.glwe_mul_xp_minus_one_assign(c.rot, res, sc),
        Op::Rsh => module.glwe_rsh(c.shift, res, sc),
        Op::LshAssign => module.glwe_lsh_assign(res, c.shift, sc),
        Op::Lsh => module.glwe_lsh(res, a, c.shift, sc),
        Op::LshAdd => module.glwe_lsh_add(res, a, c.shift, sc),
        Op::LshSub => module.glwe_lsh_sub(res, a, c.shift, sc),
        Op::Normalize => module.glwe_normalize(res, a, sc),
        Op::NormalizeAssign => module.glwe_normalize_assign(res, sc),
        Op::CrossRef => {
            let mut slot: Option<GLWE<&mut [u8]>> = None;
            let (view, _rest) = module.glwe_maybe_cross_normalize_to_ref(&*a, c.b, &mut slot, sc);
            let out = (glwe_cols(&view, w), view.base2k().0 as usize, view.size());
            return Some(out);
        }
        Op::CrossMut => {
            let mut slot: Option<GLWE<&mut [u8]>> = None;
            let (view, _rest) = module.glwe_maybe_cross_normalize_to_mut(a, c.b, &mut slot, sc);
            let out = (glwe_cols(&view, w), view.base2k().0 as usize, view.size());
            return Some(out);
        }
    }
    None
}

fn w_for(c: &Case) -> usize {
    c.r_bits().max(c.a_bits()).max(c.b_size * c.b) + c.shift + 8 + 64
}

/// Execute one case on given operands (res holds its previous content). Returns false if a violation was raised.
fn exec(module: &Module<BE>, c: &Case, res: &mut GLWE<Vec<u8>>, a: &mut GLWE<Vec<u8>>, b: &GLWE<Vec<u8>>, rng: &mut Rng, rep: &mut Report, ctx: &str) -> bool {
    let n = c.n;
    let w = w_for(c);
    let zero = zero_poly(n);
    let a_cols = if c.op.uses_a() { glwe_cols(a, w) } else { vec![] };
    let b_cols = if c.op.uses_b() { glwe_cols(b, w) } else { vec![] };
    let r_cols = glwe_cols(res, w);
    let a_snapshot = a.clone();
    let b_snapshot = b.clone();
    // expected columns
    let want: Vec<Poly> = (0..=c.r_rank)
        .map(|i| model(c.op, c.rot, c.shift, a_cols.get(i).unwrap_or(&zero), b_cols.get(i).unwrap_or(&zero), &r_cols[i]))
        .collect();
    let bytes = match c.op {
        Op::CrossRef | Op::CrossMut => {
            let lay = GLWELayout { n: Degree(n as u32), base2k: Base2K(c.b as u32), k: TorusPrecision(c.a_bits() as u32), rank: Rank(c.a_rank as u32) };
            // the helpers have no companion query: temporary GLWE (64-byte aligned take) + glwe_normalize_tmp_bytes
            GLWE::<Vec<u8>>::bytes_of_from_infos(&lay).next_multiple_of(64) + module.glwe_normalize_tmp_bytes() + 64
        }
        _ => scratch_bytes(module),
    };
    let mut small: Option<String> = None;
    let mut res_try = res.clone();
    let mut a_try = a.clone();
    let r = with_exact_scratch(
        bytes,
        rng,
        |sc| {
            res_try = res.clone();
            a_try = a.clone();
            call(module, c, &mut res_try, &mut a_try, b, w, sc)
        },
        |p| small = Some(p.to_string()),
    );
    rep.case(c.op.name(), &c.key(), c.cls_a != "zero");
    rep.sample_for_op(&format!("{BE_NAME}:{}:{}", c.op.name(), c.class()), || c.desc());
    rep.count(&format!("class:{}", c.class()), 1);
    if let Some(p) = small {
        let mut d = c.desc();
        d.put("class", "scratch_query_too_small");
        d.put("ctx", ctx);
        rep.violate(&format!("{}:exact_scratch", c.op.name()), d, format!("panic with a scratch window of exactly the queried {bytes} bytes: {p}"));
    }
    let view = match r {
        Ok(v) => v,
        Err(p) => {
            let mut d = c.desc();
            d.put("ctx", ctx);
            rep.violate(c.op.name(), d, format!("panic: {p}"));
            return false;
        }
    };
    *res = res_try;
    if !matches!(c.op, Op::CrossMut) {
        *a = a_try;
    }
    // observed columns
    let (got, got_b, got_size): (Vec<Poly>, usize, usize) = match view {
        Some(v) => v,
        None => (glwe_cols(res, w), c.b, c.r_size),
    };
    if c.op.cross() && c.op != Op::Normalize {
        // the helper must return a view in the target radix holding at least the operand's precision
        let want_size = if c.a_b == c.b { c.a_size } else { c.a_bits().div_ceil(c.b) };
        if got_b != c.b || got_size != want_size || got.len() != c.a_rank + 1 {
            let mut d = c.desc();
            d.put("ctx", ctx);
            rep.violate(c.op.name(), d, format!("returned view has base2k {got_b}, size {got_size}, {} columns; expected base2k {}, size {want_size}, {} columns", got.len(), c.b, c.a_rank + 1));
            return false;
        }
    }
    let unit_log = if c.op.cross() && c.op != Op::Normalize { w - got_size * got_b } else { w - c.r_bits() };
    let mut all_exact = true;
    for i in 0..got.len() {
        let tol = c.tol_units(i);
        if tol > 0 {
            all_exact = false;
        }
        let (m, at) = max_centred_diff(&got[i], &want[i], w);
        let units = ratio_units(&m, unit_log);
        let bad = if tol == 0 { m != big(0) } else { m > (big(tol as i128) << unit_log) };
        if tol > 0 {
            rep.maxf(&format!("worst_units_per_allowed_unit:{}", c.op.name()), units / tol as f64);
        }
        if bad {
            let mut d = c.desc();
            d.put("ctx", ctx);
            d.put("column", i);
            rep.violate(
                c.op.name(),
                d,
                format!("column {i}, coefficient {at}: result differs from the exact model by {units:.4} units of the result's last limb (allowed: {tol})"),
            );
            return false;
        }
    }
    // operands must not change
    if (c.op.uses_a() && c.op != Op::CrossMut && *a != a_snapshot) || *b != b_snapshot {
        let mut d = c.desc();
        d.put("ctx", ctx);
        rep.violate(c.op.name(), d, "read-only operand modified".into());
        return false;
    }
    // phase statement for a random secret (only meaningful without truncation; then it must hold exactly)
    if all_exact && !(c.op.cross() && c.op != Op::Normalize) {
        let kind = rng.below(3) as usize;
        let sk = ClearSk::random(n, c.r_rank.max(1), rng, kind);
        let pa = if c.op.uses_a() { phase_of_cols(&a_cols, &sk) } else { zero.clone() };
        let pb = if c.op.uses_b() { phase_of_cols(&b_cols, &sk) } else { zero.clone() };
        let pr = phase_of_cols(&r_cols, &sk);
        let want_phase = model(c.op, c.rot, c.shift, &pa, &pb, &pr);
        let got_phase = phase_of_cols(&got, &sk);
        let (m, at) = max_centred_diff(&got_phase, &want_phase, w);
        rep.count("phase_checks", 1);
        if m != big(0) {
            let mut d = c.desc();
            d.put("ctx", ctx);
            rep.violate(c.op.name(), d, format!("phase(result) != op(phase(operands)) at coefficient {at} for a random secret although no operand is truncated"));
            return false;
        }
    }
    true
}

fn pick_b(rng: &mut Rng) -> usize {
    match rng.below(6) {
        0 => *rng.pick(&[1usize, 2, 3, 17, 50, 52, 60, 62]),
        1 => rng.usize_in(1, 62),
        _ => rng.usize_in(4, 54),
    }
}

fn gen_case(op: Op, rng: &mut Rng) -> Case {
    let n = *rng.pick(&[1usize, 2, 4, 8, 8, 16, 16, 32]);
    let b = pick_b(rng);
    let a_b = if op.cross() && rng.below(8) != 0 { pick_b(rng) } else { b };
    let r_size = rng.usize_in(1, 5);
    let (mut a_size, mut b_size) = match rng.below(4) {
        0 => (r_size, r_size),
        _ => (rng.usize_in(1, 5), rng.usize_in(1, 5)),
    };
    // ranks admitted by the API's own assertions
    let (mut a_rank, mut b_rank, r_rank);
    match op {
        Op::AddInto | Op::Sub => match rng.below(4) {
            0 => {
                a_rank = 0;
                b_rank = rng.usize_in(0, 3);
                r_rank = b_rank;
            }
            1 => {
                b_rank = 0;
                a_rank = rng.usize_in(0, 3);
                r_rank = a_rank;
            }
            _ => {
                a_rank = rng.usize_in(0, 3);
                b_rank = a_rank;
                r_rank = a_rank;
            }
        },
        Op::AddAssign | Op::Lsh | Op::LshAdd | Op::LshSub => {
            r_rank = rng.usize_in(0, 3);
            a_rank = if rng.coin() { r_rank } else { rng.usize_in(0, r_rank) };
            b_rank = 0;
        }
        Op::SubAssign | Op::SubNegateAssign | Op::Copy | Op::Rotate => {
            r_rank = rng.usize_in(0, 3);
            a_rank = if rng.below(3) == 0 { 0 } else { r_rank };
            b_rank = 0;
        }
        _ => {
            r_rank = rng.usize_in(0, 3);
            a_rank = r_rank;
            b_rank = 0;
        }
    }
    if !op.uses_a() {
        a_size = r_size;
        a_rank = r_rank;
    }
    if !op.uses_b() {
        b_size = 1;
        b_rank = 0;
    }
    // the cross-normalisation helpers return a view with the operand's precision in the target radix
    let r_size = if matches!(op, Op::CrossRef | Op::CrossMut) { if a_b == b { a_size } else { (a_size * a_b).div_ceil(b) } } else { r_size };
    let rot = if op.has_rot() {
        match rng.below(8) {
            0 => *rng.pick(&[1i64 << 40, -(1i64 << 40), 0, 2 * n as i64, -(2 * n as i64), n as i64, -(n as i64)]),
            _ => rng.i64_in(-4 * n as i64, 4 * n as i64),
        }
    } else {
        0
    };
    let shift = if op.has_shift() {
        let sz = if op.uses_a() { a_size } else { r_size };
        match rng.below(6) {
            0 => rng.usize_in(0, sz + 2) * b,
            1 => (rng.usize_in(0, sz + 1) * b + 1).min((sz + 2) * b),
            _ => rng.usize_in(0, (sz + 2) * b),
        }
    } else {
        0
    };
    let mut c = Case {
        op,
        n,
        b,
        a_b,
        r_size,
        a_size,
        b_size,
        r_rank,
        a_rank,
        b_rank,
        rot,
        shift,
        cls_a: *rng.pick(CT_CLASSES),
        cls_b: *rng.pick(CT_CLASSES),
        cls_r: *rng.pick(CT_CLASSES),
    };
    // un-normalised digits only where nothing is truncated (the one-unit tolerance is a statement about normalised operands)
    if !c.truncating() && b <= 50 && a_b <= 50 && rng.below(5) == 0 {
        c.cls_a = "headroom";
        if rng.coin() {
            c.cls_b = "headroom";
        }
        if rng.coin() {
            c.cls_r = "headroom";
        }
    }
    if rng.below(40) == 0 {
        c.cls_a = "zero";
    }
    c
}

fn run_single(module_cache: &mut HashMap<usize, &'static Module<BE>>, c: &Case, rng: &mut Rng, rep: &mut Report) {
    let module = *module_cache.entry(c.n).or_insert_with(|| cached_module(c.n));
    let mut a = random_glwe(c.n, c.a_b, c.a_size, c.a_rank, c.cls_a, rng);
    let b = random_glwe(c.n, c.b, c.b_size, c.b_rank, c.cls_b, rng);
    // previous content of res: an operand for assign/fused forms, garbage otherwise
    let mut res = random_glwe(c.n, c.b, c.r_size, c.r_rank, if c.op.uses_r() { c.cls_r } else { "uniform" }, rng);
    let res_pre = res.clone();
    let ok = exec(module, c, &mut res, &mut a, &b, rng, rep, "single");
    if !ok {
        return;
    }
    // assign vs out-of-place: the sibling form on the same operands must give the same torus value in every column
    if let Some(sib) = c.op.sibling() {
        let mut s = c.clone();
        s.op = sib;
        let mut out = random_glwe(c.n, c.b, c.r_size, c.r_rank, "uniform", rng);
        let w = w_for(c);
        let mut pre = res_pre.clone();
        let mut a2 = a.clone();
        // shapes the out-of-place form does not admit (rank-mixed add with res rank > operand rank > 0) are skipped
        if c.op == Op::AddAssign && !(c.a_rank == c.r_rank || c.a_rank == 0) {
            return;
        }
        let scb = scratch_bytes(module);
        let mut sw = ScratchWin::new(scb + 64);
        let r = guarded(|| match c.op {
            Op::AddAssign => module.glwe_add_into(&mut out, &pre, &a2),
            Op::SubAssign => module.glwe_sub(&mut out, &pre, &a2),
            Op::SubNegateAssign => module.glwe_sub(&mut out, &a2, &pre),
            Op::NegateAssign => module.glwe_negate(&mut out, &pre),
            Op::RotateAssign => module.glwe_rotate(c.rot, &mut out, &pre),
            Op::MulXpAssign => module.glwe_mul_xp_minus_one(c.rot, &mut out, &pre),
            Op::LshAssign => module.glwe_lsh(&mut out, &pre, c.shift, sw.scratch()),
            Op::NormalizeAssign => module.glwe_normalize(&mut out, &pre, sw.scratch()),
            _ => unreachable!(),
        });
        rep.count("assign_vs_out_of_place", 1);
        match r {
            Err(p) => {
                let mut d = s.desc();
                d.put("ctx", "sibling_of_assign");
                rep.violate(sib.name(), d, format!("panic: {p}"));
            }
            Ok(()) => {
                let x = glwe_cols(&out, w);
                let y = glwe_cols(&res, w);
                // both forms are exact here unless the operand a is longer than res (then each may deviate by its own unit)
                let tol: u32 = if c.op.uses_a() && c.a_bits() > c.r_bits() { 2 } else { 0 };
                for i in 0..x.len() {
                    let (m, at) = max_centred_diff(&x[i], &y[i], w);
                    if m > (big(tol as i128) << (w - c.r_bits())) {
                        let mut d = c.desc();
                        d.put("ctx", "assign_vs_out_of_place");
                        d.put("sibling", sib.name());
                        rep.violate(c.op.name(), d, format!("column {i} coefficient {at}: {} and {} disagree on the same operands", c.op.name(), sib.name()));
                        return;
                    }
                }
            }
        }
        let _ = (&mut pre, &mut a2);
    }
}

// ---------------------------------------------------------------------------------------------
// GGSW rotation
// ---------------------------------------------------------------------------------------------
fn run_ggsw(rng: &mut Rng, rep: &mut Report) {
    let n = *rng.pick(&[4usize, 8, 16]);
    let module = cached_module(n);
    let b = rng.usize_in(3, 54);
    let rank = rng.usize_in(0, 2);
    let dsize = rng.usize_in(1, 2);
    let a_size = rng.usize_in(dsize + 1, 5);
    let a_dnum = rng.usize_in(1, a_size / dsize);
    let assign = rng.coin();
    let r_size = if assign || rng.coin() { a_size } else { rng.usize_in(dsize + 1, 5) };
    let r_dnum = if assign { a_dnum } else { rng.usize_in(1, a_dnum.min(r_size / dsize)) };
    let rot = match rng.below(6) {
        0 => *rng.pick(&[1i64 << 40, -(1i64 << 40), 0]),
        _ => rng.i64_in(-4 * n as i64, 4 * n as i64),
    };
    let op = if assign { "ggsw_rotate_assign" } else { "ggsw_rotate" };
    let desc = jo! {"backend" => BE_NAME, "op" => op, "n" => n, "res_base2k" => b, "a_base2k" => b, "rank" => rank, "dsize" => dsize, "a_size" => a_size,
    "res_size" => r_size, "a_dnum" => a_dnum, "res_dnum" => r_dnum, "rot" => rot, "class" => if a_size > r_size { "truncating" } else { "plain" }};
    let key = format!("{BE_NAME}|{op}|{n}|{b}|{rank}|{dsize}|{a_size}|{r_size}|{a_dnum}|{r_dnum}|{}", rot.rem_euclid(2 * n as i64));
    let mk = |size: usize, dnum: usize| GGSW::alloc(Degree(n as u32), Base2K(b as u32), TorusPrecision((size * b) as u32), Rank(rank as u32), Dnum(dnum as u32), Dsize(dsize as u32));
    let mut a = mk(a_size, a_dnum);
    let mut res = mk(r_size, r_dnum);
    let cls = *rng.pick(CT_CLASSES);
    for row in 0..a_dnum {
        for col in 0..=rank {
            let mut cell = a.at_mut(row, col);
            fill_vec_class(cell.data_mut(), b, cls, rng);
        }
    }
    for row in 0..r_dnum {
        for col in 0..=rank {
            let mut cell = res.at_mut(row, col);
            fill_vec_class(cell.data_mut(), b, "uniform", rng);
        }
    }
    let w = a_size.max(r_size) * b + 8;
    let src = if assign { &res } else { &a };
    let want: Vec<Vec<Vec<Poly>>> = (0..r_dnum)
        .map(|row| (0..=rank).map(|col| glwe_cols(&src.at(row, col), w).iter().map(|p| rotate_big(p, rot)).collect()).collect())
        .collect();
    let mut small = None;
    let mut out = res.clone();
    let r = with_exact_scratch(
        module.ggsw_rotate_tmp_bytes(),
        rng,
        |sc| {
            out = res.clone();
            if assign { module.ggsw_rotate_assign(rot, &mut out, sc) } else { module.ggsw_rotate(rot, &mut out, &a) }
        },
        |p| small = Some(p.to_string()),
    );
    rep.case(op, &key, true);
    rep.sample_for_op(&format!("{BE_NAME}:{op}"), || desc.clone());
    if let Some(p) = small {
        let mut d = desc.clone();
        d.put("class", "scratch_query_too_small");
        rep.violate(&format!("{op}:exact_scratch"), d, format!("panic with exactly ggsw_rotate_tmp_bytes: {p}"));
    }
    if let Err(p) = r {
        rep.violate(op, desc, format!("panic: {p}"));
        return;
    }
    let tol: u32 = if !assign && a_size > r_size { 1 } else { 0 };
    for row in 0..r_dnum {
        for col in 0..=rank {
            let got = glwe_cols(&out.at(row, col), w);
            for i in 0..got.len() {
                let (m, at) = max_centred_diff(&got[i], &want[row][col][i], w);
                if m > (big(tol as i128) << (w - r_size * b)) {
                    let mut d = desc.clone();
                    d.put("row", row);
                    d.put("cell_col", col);
                    d.put("column", i);
                    rep.violate(op, d, format!("cell ({row},{col}) column {i} coefficient {at}: differs from X^k * operand by {:.3} units (allowed {tol})", ratio_units(&m, w - r_size * b)));
                    return;
                }
            }
        }
    }
}

// ---------------------------------------------------------------------------------------------
// random straight-line programs over a register file of 4 ciphertexts
// ---------------------------------------------------------------------------------------------
const PROG_OPS: &[Op] = &[
    Op::AddInto,
    Op::AddAssign,
    Op::Sub,
    Op::SubAssign,
    Op::SubNegateAssign,
    Op::Negate,
    Op::NegateAssign,
    Op::Copy,
    Op::Rotate,
    Op::RotateAssign,
    Op::MulXp,
    Op::MulXpAssign,
    Op::Rsh,
    Op::LshAssign,
    Op::Lsh,
    Op::LshAdd,
    Op::LshSub,
    Op::Normalize,
    Op::NormalizeAssign,
];

fn run_program(rng: &mut Rng, rep: &mut Report) {
    let n = *rng.pick(&[4usize, 8, 16]);
    let module = cached_module(n);
    let b = rng.usize_in(3, 48);
    // register file: four ciphertexts of one radix, different sizes; registers 0..2 share a rank, register 3 is a plaintext (rank 0) half of the time
    let rank = rng.usize_in(0, 3);
    let ranks = [rank, rank, rank, if rng.coin() { 0 } else { rank }];
    let sizes: Vec<usize> = (0..4).map(|_| rng.usize_in(1, 5)).collect();
    let mut regs: Vec<GLWE<Vec<u8>>> = (0..4).map(|i| random_glwe(n, b, sizes[i], ranks[i], *rng.pick(CT_CLASSES), rng)).collect();
    let len = rng.usize_in(2, 12);
    let mut trace: Vec<String> = Vec::new();
    let mut executed = 0;
    let prog_id = rng.next_u64();
    for step in 0..len {
        // pick an op and registers admitted by the API
        let mut tries = 0;
        let (op, rd, ra, rb) = loop {
            tries += 1;
            let op = *rng.pick(PROG_OPS);
            let rd = rng.below(4) as usize;
            let ra = rng.below(4) as usize;
            let rb = rng.below(4) as usize;
            if op.uses_a() && ra == rd {
                continue;
            }
            if op.uses_b() && (rb == rd) {
                continue;
            }
            let (r_r, a_r, b_r) = (ranks[rd], ranks[ra], ranks[rb]);
            let ok = match op {
                Op::AddInto | Op::Sub => {
                    if a_r == 0 {
                        r_r == b_r
                    } else if b_r == 0 {
                        r_r == a_r
                    } else {
                        r_r == a_r && r_r == b_r
                    }
                }
                Op::AddAssign | Op::Lsh | Op::LshAdd | Op::LshSub => r_r >= a_r,
                Op::SubAssign | Op::SubNegateAssign | Op::Copy | Op::Rotate => r_r == a_r || a_r == 0,
                Op::Negate | Op::MulXp | Op::Normalize => r_r == a_r,
                _ => true,
            };
            if ok || tries > 50 {
                break (if ok { op } else { Op::NegateAssign }, rd, ra, rb);
            }
        };
        let c = Case {
            op,
            n,
            b,
            a_b: b,
            r_size: sizes[rd],
            a_size: if op.uses_a() { sizes[ra] } else { sizes[rd] },
            b_size: if op.uses_b() { sizes[rb] } else { 1 },
            r_rank: ranks[rd],
            a_rank: if op.uses_a() { ranks[ra] } else { ranks[rd] },
            b_rank: if op.uses_b() { ranks[rb] } else { 0 },
            rot: if op.has_rot() { rng.i64_in(-4 * n as i64, 4 * n as i64) } else { 0 },
            shift: if op.has_shift() { rng.usize_in(0, (sizes[rd] + 2) * b) } else { 0 },
            cls_a: "program",
            cls_b: "program",
            cls_r: "program",
        };
        // un-normalised digits reaching a truncating step would void the one-unit tolerance: re-normalise the operands first (model-free: the
        // registers are re-read after every step, so this only changes which values the next op sees)
        trace.push(format!("{}(r{rd}{}{}{}{})", op.name(), if op.uses_a() { format!(",r{ra}") } else { String::new() }, if op.uses_b() { format!(",r{rb}") } else { String::new() }, if op.has_rot() { format!(",rot={}", c.rot) } else { String::new() }, if op.has_shift() { format!(",k={}", c.shift) } else { String::new() }));
        if c.truncating() {
            let mut sw = ScratchWin::new(module.glwe_normalize_tmp_bytes());
            for idx in [ra, rb, rd] {
                let _ = guarded(|| module.glwe_normalize_assign(&mut regs[idx], sw.scratch()));
            }
        }
        let mut res = regs[rd].clone();
        let mut a = regs[ra].clone();
        let bb = regs[rb].clone();
        let ctx = format!("program {prog_id:016x} step {step}: {}", trace.join("; "));
        let ok = exec(module, &c, &mut res, &mut a, &bb, rng, rep, &ctx);
        executed += 1;
        if !ok {
            rep.count("program_first_divergent_step", step as i128);
            break;
        }
        regs[rd] = res;
    }
    rep.count("programs", 1);
    rep.count("program_steps", executed);
}

pub fn run(cfg: &Cfg, rep: &mut Report) {
    let mut rng = cfg.rng(&format!("c02-{BE_NAME}"));
    let mut modules: HashMap<usize, &'static Module<BE>> = HashMap::new();
    // the ops are coefficient-domain only: the four backends share the reference kernels or override them (AVX); split the budget evenly
    let nb = if cfg!(feature = "avx") { 4 } else { 2 };
    if cfg.mode != "programs" {
        let total = cfg.budget(2_400_000, 80_000_000) / nb;
        for it in 0..total {
            let op = ALL_OPS[(it as usize) % ALL_OPS.len()];
            let c = gen_case(op, &mut rng);
            run_single(&mut modules, &c, &mut rng, rep);
        }
        let total = cfg.budget(160_000, 5_000_000) / nb;
        for _ in 0..total {
            run_ggsw(&mut rng, rep);
        }
    }
    if cfg.mode != "single" {
        let total = cfg.budget(120_000, 4_000_000) / nb;
        for _ in 0..total {
            run_program(&mut rng, rep);
        }
    }
}
