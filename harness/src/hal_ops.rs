// Catalogue of HAL operations with a uniform execution interface (included once per backend).
// Used by C10 (cross-backend byte comparison), C11 (determinism / stray writes), C12 (exact scratch), C17 (sanitizers).
//
// A case is (op, n, seed): every shape, parameter and operand value is derived from the seed by code
// that does not depend on the backend, so the same case can be replayed on another backend.

#[derive(Clone, Copy, Debug, PartialEq, Eq)]
pub enum ScratchMode {
    Generous,
    Exact,
    ExactUninit,
}

#[derive(Clone, Debug)]
pub struct Opts {
    pub fill_seed: u64,
    pub scratch: ScratchMode,
    pub poison: bool,
    /// operand width policy for DFT-domain products: true = stay inside the FFT64 exactness domain
    pub fft_safe: bool,
    /// after the call, branch on every selected output value (lets memcheck see tainted outputs)
    pub fold: bool,
    /// the scratch slice starts this many bytes past a 64-byte boundary (0 = aligned window)
    pub misalign: usize,
}

impl Default for Opts {
    fn default() -> Self {
        Opts { fill_seed: 1, scratch: ScratchMode::Generous, poison: false, fft_safe: true, fold: false, misalign: 0 }
    }
}

pub struct OutReg {
    pub name: &'static str,
    pub gr: GuardRef,
    pub len: usize,
    pub selected: Vec<std::ops::Range<usize>>,
    pub before: Vec<u8>,
}

pub struct Outcome {
    pub op: &'static str,
    pub desc: J,
    pub key: String,
    pub panic: Option<String>,
    /// concatenation of the selected byte ranges of all outputs after the call
    pub selected_bytes: Vec<u8>,
    /// first stray write found outside the selected ranges / in read-only operands / in guards
    pub stray: Option<String>,
    /// coefficient-domain rendering of the selected outputs (cross-backend comparison)
    pub coeff: Vec<i128>,
    pub tmp_bytes: usize,
    pub nontrivial: bool,
    pub folded: u64,
}

pub struct Ctx {
    pub rs: Rng,
    pub rd: Rng,
    pub rf: Rng,
    pub opts: Opts,
    pub ins: Vec<(&'static str, GuardRef, Vec<u8>)>,
    pub outs: Vec<OutReg>,
    pub guards: Vec<GuardRef>,
    pub desc: J,
    pub tmp_bytes: usize,
    pub coeff: Vec<i128>,
    pub selected_bytes: Vec<u8>,
    pub stray: Option<String>,
}

impl Ctx {
    /// post-call inspection; must run while the operand buffers are still alive
    fn post(&mut self) {
        for o in &self.outs {
            let after = unsafe { o.gr.read() };
            let mut mask = vec![false; o.len];
            for r in &o.selected {
                self.selected_bytes.extend_from_slice(&after[r.clone()]);
                for m in &mut mask[r.clone()] {
                    *m = true;
                }
            }
            if self.stray.is_none() {
                if let Some(p) = (0..o.len).find(|i| !mask[*i] && after[*i] != o.before[*i]) {
                    self.stray = Some(format!("output buffer `{}`: byte {p} outside the selected column/limbs was modified (buffer of {} bytes)", o.name, o.len));
                }
            }
        }
        for (name, gr, before) in &self.ins {
            let after = unsafe { gr.read() };
            if self.stray.is_none() && after != before[..] {
                self.stray = Some(format!("read-only operand `{name}` was modified"));
            }
        }
        for g in &self.guards {
            if self.stray.is_none() && !unsafe { g.guards_intact() } {
                self.stray = Some("guard bytes around an operand were modified".to_string());
            }
        }
    }
    fn reg_in(&mut self, name: &'static str, g: &Guarded) {
        self.ins.push((name, g.raw_ref(), g.bytes().to_vec()));
        self.guards.push(g.raw_ref());
    }
    fn reg_out(&mut self, name: &'static str, g: &Guarded, selected: Vec<std::ops::Range<usize>>) {
        self.outs.push(OutReg { name, gr: g.raw_ref(), len: g.len(), selected, before: g.bytes().to_vec() });
        self.guards.push(g.raw_ref());
    }
    fn p(&mut self, k: &str, v: impl Into<J>) {
        self.desc.put(k, v);
    }
    /// poison everything the call has no business touching (ASan flavour)
    fn poison_unselected(&self, on: bool) {
        if !ASAN || !self.opts.poison {
            return;
        }
        for o in &self.outs {
            let mut cur = 0usize;
            let mut sel = o.selected.clone();
            sel.sort_by_key(|r| r.start);
            for r in sel.iter().chain(std::iter::once(&(o.len..o.len))) {
                if r.start > cur {
                    let (s, e) = ((cur + 7) & !7, r.start & !7);
                    if e > s {
                        let p = unsafe { o.gr.payload().add(s) };
                        if on { poison(p, e - s) } else { unpoison(p, e - s) }
                    }
                }
                cur = cur.max(r.end);
            }
        }
    }
    fn scratch(&mut self, bytes: usize) -> ScratchWin {
        self.tmp_bytes = bytes;
        let mut sw = match self.opts.scratch {
            ScratchMode::Generous => ScratchWin::new_misaligned(bytes + 4096, self.opts.misalign),
            ScratchMode::Exact => ScratchWin::new_misaligned(bytes, self.opts.misalign),
            ScratchMode::ExactUninit => return ScratchWin::new_uninit(bytes),
        };
        sw.fill(&mut self.rf);
        sw
    }
    fn small(&mut self, n: usize, cols: usize, size: usize, cap: usize, bits: usize) -> VBuf {
        // one buffer in three has spare capacity (size < max_size) even when the caller did not ask for it: the limbs beyond the
        // active size hold data too and must be ignored by every operation
        let cap = if cap == size && self.rd.below(3) == 0 { size + 1 + self.rd.below(2) as usize } else { cap };
        let mut v = VBuf::new(n, cols, size, cap);
        let bits = bits.clamp(1, 64);
        let class = self.rd.below(8);
        let mut r = self.rd.clone();
        let (hi, lo) = if bits >= 64 { (i64::MAX, i64::MIN) } else { ((1i64 << (bits - 1)) - 1, -(1i64 << (bits - 1))) };
        v.fill_with(|c, j, i| match class {
            0 => hi,
            1 => lo,
            2 => if (i + j + c) % 2 == 0 { hi } else { lo },
            3 => if r.below(5) == 0 { r.signed_bits(bits) } else { 0 },
            _ => r.signed_bits(bits),
        });
        self.rd = r;
        v
    }
    fn small_out(&mut self, n: usize, cols: usize, size: usize, cap: usize) -> VBuf {
        let mut v = VBuf::new(n, cols, size, cap);
        v.g.fill_random(&mut self.rf);
        v
    }
    fn big(&mut self, n: usize, cols: usize, size: usize, cap: usize, bits: usize) -> BigBuf {
        let cap = if cap == size && self.rd.below(3) == 0 { size + 1 + self.rd.below(2) as usize } else { cap };
        let mut v = BigBuf::new(n, cols, size, cap);
        let bits = bits.clamp(1, if BIG_BYTES == 8 || self.opts.fft_safe { 62 } else { 120 });
        let mut r = self.rd.clone();
        v.fill_with(|_, _, _| {
            if bits <= 63 { r.signed_bits(bits) as i128 } else { ((r.signed_bits(bits - 60) as i128) << 60) | (r.next_u64() >> 4) as i128 }
        });
        self.rd = r;
        v
    }
    fn big_out(&mut self, n: usize, cols: usize, size: usize, cap: usize) -> BigBuf {
        let mut v = BigBuf::new(n, cols, size, cap);
        v.g.fill_random(&mut self.rf);
        v
    }
    fn dft_out(&mut self, n: usize, cols: usize, size: usize, cap: usize) -> DftBuf {
        let mut v = DftBuf::new(n, cols, size, cap);
        v.g.fill_random(&mut self.rf);
        v
    }
    fn sel_small(v: &VBuf, col: usize) -> Vec<std::ops::Range<usize>> {
        (0..v.size).map(|j| v.range(col, j)).collect()
    }
    fn sel_big(v: &BigBuf, col: usize) -> Vec<std::ops::Range<usize>> {
        (0..v.size).map(|j| v.range(col, j)).collect()
    }
    fn sel_dft(v: &DftBuf, col: usize) -> Vec<std::ops::Range<usize>> {
        (0..v.size).map(|j| v.range(col, j)).collect()
    }
    fn coeff_small(&mut self, v: &VBuf, col: usize) {
        for j in 0..v.size {
            self.coeff.extend(v.poly(col, j).iter().map(|x| *x as i128));
        }
    }
    fn coeff_big(&mut self, v: &BigBuf, col: usize) {
        for j in 0..v.size {
            self.coeff.extend(v.poly(col, j));
        }
    }
    fn coeff_dft(&mut self, module: &Module<BE>, v: &DftBuf, col: usize) {
        let mut big = BigBuf::new(v.n, 1, v.size, v.size);
        let mut sw = ScratchWin::new(module.vec_znx_idft_apply_tmp_bytes() + 4096);
        module.vec_znx_idft_apply(&mut big.view(), 0, &v.rview(), col, sw.scratch());
        for j in 0..v.size {
            self.coeff.extend(big.poly(0, j));
        }
    }
}

pub const HAL_OPS: &[&str] = &[
    // small vectors
    "vec_znx_zero", "vec_znx_copy", "vec_znx_negate", "vec_znx_negate_assign", "vec_znx_add_into", "vec_znx_add_assign", "vec_znx_sub", "vec_znx_sub_assign",
    "vec_znx_sub_negate_assign", "vec_znx_add_scalar_into", "vec_znx_add_scalar_assign", "vec_znx_sub_scalar", "vec_znx_sub_scalar_assign", "vec_znx_rotate",
    "vec_znx_rotate_assign", "vec_znx_automorphism", "vec_znx_automorphism_assign", "vec_znx_mul_xp_minus_one", "vec_znx_mul_xp_minus_one_assign",
    "vec_znx_switch_ring", "vec_znx_split_ring", "vec_znx_merge_rings", "vec_znx_normalize", "vec_znx_normalize_assign", "vec_znx_lsh", "vec_znx_lsh_assign",
    "vec_znx_lsh_add_into", "vec_znx_lsh_sub", "vec_znx_rsh", "vec_znx_rsh_assign", "vec_znx_rsh_add_into", "vec_znx_rsh_sub", "vec_znx_fill_uniform",
    "vec_znx_fill_normal", "vec_znx_add_normal",
    // big accumulators
    "vec_znx_big_from_small", "vec_znx_big_add_into", "vec_znx_big_add_assign", "vec_znx_big_add_small_into", "vec_znx_big_add_small_assign", "vec_znx_big_sub",
    "vec_znx_big_sub_assign", "vec_znx_big_sub_negate_assign", "vec_znx_big_sub_small_a", "vec_znx_big_sub_small_b", "vec_znx_big_sub_small_assign",
    "vec_znx_big_sub_small_negate_assign", "vec_znx_big_negate", "vec_znx_big_negate_assign", "vec_znx_big_automorphism", "vec_znx_big_automorphism_assign",
    "vec_znx_big_normalize", "vec_znx_big_normalize_add_assign", "vec_znx_big_normalize_sub_assign", "vec_znx_big_normalize_negate", "vec_znx_big_add_normal",
    // DFT domain
    "vec_znx_dft_apply", "vec_znx_idft_apply", "vec_znx_idft_apply_tmpa", "vec_znx_dft_add_into", "vec_znx_dft_add_assign", "vec_znx_dft_add_scaled_assign",
    "vec_znx_dft_sub", "vec_znx_dft_sub_assign", "vec_znx_dft_sub_negate_assign", "vec_znx_dft_copy", "vec_znx_dft_zero", "vec_znx_dft_chain", "svp_prepare", "svp_apply_dft",
    "svp_apply_dft_to_dft", "svp_apply_dft_to_dft_assign", "vmp_prepare", "vmp_apply_dft", "vmp_apply_dft_to_dft", "vmp_zero", "cnv_prepare_left", "cnv_prepare_right",
    "cnv_prepare_self", "cnv_apply_dft", "cnv_pairwise_apply_dft", "cnv_by_const_apply",
];

/// ops whose result lives in the DFT domain or is produced through it (need N >= 8)
pub fn op_needs_dft(op: &str) -> bool {
    op.contains("dft") || op.starts_with("svp") || op.starts_with("vmp") || op.starts_with("cnv")
}

fn dft_bits(n: usize, terms: usize, bits_b: usize, fft_safe: bool) -> usize {
    let logn = (n.trailing_zeros() as f64).max(1.0);
    if fft_safe || IS_FFT64 {
        let budget = 52.0 - ((terms * n) as f64 * 13.0 * logn).log2() + 2.0 - bits_b as f64;
        (budget.floor() as i64).clamp(1, 50) as usize
    } else {
        let budget = 118.0 - ((terms * n) as f64).log2() + 2.0 - bits_b as f64;
        (budget.floor() as i64).clamp(1, 62) as usize
    }
}

pub fn run_case(op: &'static str, n: usize, seed: u64, opts: &Opts) -> Outcome {
    let module = cached_module(n);
    let mut cx = Ctx {
        rs: Rng::new(seed, 0x5a),
        rd: Rng::new(seed, 0xda),
        rf: Rng::new(opts.fill_seed ^ seed.rotate_left(17), 0xf1),
        opts: opts.clone(),
        ins: vec![],
        outs: vec![],
        guards: vec![],
        desc: jo! {"backend" => BE_NAME, "op" => op, "n" => n, "case_seed" => seed},
        tmp_bytes: 0,
        coeff: vec![],
        selected_bytes: vec![],
        stray: None,
    };
    let mut nontrivial = n >= 2;
    // shapes shared by most ops
    let rc = cx.rs.usize_in(1, 3);
    let ac = cx.rs.usize_in(1, 3);
    let bc = cx.rs.usize_in(1, 3);
    let (rcol, acol, bcol) = (cx.rs.usize_in(0, rc - 1), cx.rs.usize_in(0, ac - 1), cx.rs.usize_in(0, bc - 1));
    let rs_ = cx.rs.usize_in(1, 5);
    let asz = cx.rs.usize_in(1, 5);
    let bsz = cx.rs.usize_in(1, 5);
    let rcap = rs_ + cx.rs.usize_in(0, 1);
    let k_rot = match cx.rs.below(4) {
        0 => *cx.rs.pick(&[0i64, 1, -1, n as i64, 2 * n as i64, -(n as i64), 1 << 40]),
        _ => cx.rs.i64_in(-(4 * n as i64), 4 * n as i64),
    };
    let g_aut = k_rot | 1;
    let base2k = *cx.rs.pick(&[1usize, 2, 7, 12, 17, 19, 30, 50, 52, 61]);
    let a_base2k = if cx.rs.below(3) == 0 { *cx.rs.pick(&[3usize, 12, 17, 26, 50]) } else { base2k };
    let shift = cx.rs.usize_in(0, (asz + 2) * base2k);
    let off = cx.rs.i64_in(-(((asz + 1) * a_base2k) as i64), ((asz + 1) * a_base2k) as i64);
    cx.p("res_cols", rc);
    cx.p("res_col", rcol);
    cx.p("res_size", rs_);
    cx.p("res_cap", rcap);
    cx.p("a_size", asz);
    cx.p("a_cols", ac);
    cx.p("a_col", acol);
    let mut key = format!("{BE_NAME}|{n}|{rc}{rcol}{ac}{acol}{bc}{bcol}|{rs_}|{asz}|{bsz}|{rcap}");

    // The op arms allocate their operands as locals, register them, and return the closure result.
    macro_rules! go {
        ($cx:ident, $call:expr) => {{
            $cx.poison_unselected(true);
            let r = guarded(|| $call);
            $cx.poison_unselected(false);
            $cx.post();
            r
        }};
    }
    let wide = 62usize;
    let res: Result<(), String> = match op {
        // ------------------------------------------------------------------ small vectors
        "vec_znx_zero" | "vec_znx_negate_assign" | "vec_znx_normalize_assign" | "vec_znx_lsh_assign" | "vec_znx_rsh_assign" | "vec_znx_rotate_assign"
        | "vec_znx_automorphism_assign" | "vec_znx_mul_xp_minus_one_assign" | "vec_znx_fill_uniform" | "vec_znx_fill_normal" | "vec_znx_add_normal" => {
            let bits = if op.contains("normalize") || op.contains("sh_assign") || op.contains("normal") { base2k } else { wide };
            let mut r = cx.small(n, rc, rs_, rcap, bits);
            // spare capacity and other columns get garbage that differs between fills
            {
                let keep: Vec<Vec<i64>> = (0..rs_).map(|j| r.poly(rcol, j).to_vec()).collect();
                r.g.fill_random(&mut cx.rf);
                for j in 0..rs_ {
                    r.poly_mut(rcol, j).copy_from_slice(&keep[j]);
                }
            }
            cx.reg_out("res", &r.g, Ctx::sel_small(&r, rcol));
            let mut src = Source::new(cx.rd.seed32());
            let noise = NoiseInfos::new(cx.rs.usize_in(1, rs_ * base2k), 3.2, 19.2).unwrap();
            cx.p("base2k", base2k);
            cx.p("k", shift);
            cx.p("p", k_rot);
            key += &format!("|{base2k}|{shift}|{k_rot}");
            if n == 1 && op.contains("automorphism") {
                return skip(op, cx);
            }
            let out = match op {
                "vec_znx_zero" => go!(cx, module.vec_znx_zero(&mut r.view(), rcol)),
                "vec_znx_negate_assign" => go!(cx, module.vec_znx_negate_assign(&mut r.view(), rcol)),
                "vec_znx_normalize_assign" => {
                    let mut sw = cx.scratch(module.vec_znx_normalize_tmp_bytes());
                    go!(cx, module.vec_znx_normalize_assign(base2k, &mut r.view(), rcol, sw.scratch()))
                }
                "vec_znx_lsh_assign" => {
                    let mut sw = cx.scratch(module.vec_znx_lsh_tmp_bytes());
                    go!(cx, module.vec_znx_lsh_assign(base2k, shift, &mut r.view(), rcol, sw.scratch()))
                }
                "vec_znx_rsh_assign" => {
                    let mut sw = cx.scratch(module.vec_znx_rsh_tmp_bytes());
                    go!(cx, module.vec_znx_rsh_assign(base2k, shift, &mut r.view(), rcol, sw.scratch()))
                }
                "vec_znx_rotate_assign" => {
                    let mut sw = cx.scratch(module.vec_znx_rotate_assign_tmp_bytes());
                    go!(cx, module.vec_znx_rotate_assign(k_rot, &mut r.view(), rcol, sw.scratch()))
                }
                "vec_znx_automorphism_assign" => {
                    let mut sw = cx.scratch(module.vec_znx_automorphism_assign_tmp_bytes());
                    go!(cx, module.vec_znx_automorphism_assign(g_aut, &mut r.view(), rcol, sw.scratch()))
                }
                "vec_znx_mul_xp_minus_one_assign" => {
                    let mut sw = cx.scratch(module.vec_znx_mul_xp_minus_one_assign_tmp_bytes());
                    go!(cx, module.vec_znx_mul_xp_minus_one_assign(k_rot, &mut r.view(), rcol, sw.scratch()))
                }
                "vec_znx_fill_uniform" => go!(cx, module.vec_znx_fill_uniform(base2k, &mut r.view(), rcol, &mut src)),
                "vec_znx_fill_normal" => go!(cx, module.vec_znx_fill_normal(base2k, &mut r.view(), rcol, noise, &mut src)),
                _ => go!(cx, module.vec_znx_add_normal(base2k, &mut r.view(), rcol, noise, &mut src)),
            };
            cx.coeff_small(&r, rcol);
            if op.contains("uniform") || op.contains("normal") && !op.contains("normalize") {
                // consumption of the random stream: the next draw after the call
                cx.coeff.push(src.next_i64() as i128);
            }
            out
        }
        "vec_znx_copy" | "vec_znx_negate" | "vec_znx_rotate" | "vec_znx_automorphism" | "vec_znx_mul_xp_minus_one" | "vec_znx_normalize" | "vec_znx_lsh"
        | "vec_znx_lsh_add_into" | "vec_znx_lsh_sub" | "vec_znx_rsh" | "vec_znx_rsh_add_into" | "vec_znx_rsh_sub" | "vec_znx_add_assign" | "vec_znx_sub_assign"
        | "vec_znx_sub_negate_assign" => {
            let norm = op.contains("normalize") || op.contains("sh");
            let fused = op.ends_with("_assign") || op.ends_with("add_into") && op != "vec_znx_add_into" || op.ends_with("sh_sub");
            let a = cx.small(n, ac, asz, asz, if norm { if op.contains("normalize") { a_base2k } else { base2k } } else { wide });
            let mut r = if fused { cx.small(n, rc, rs_, rcap, if norm { base2k.min(40) } else { wide }) } else { cx.small_out(n, rc, rs_, rcap) };
            if fused {
                let keep: Vec<Vec<i64>> = (0..rs_).map(|j| r.poly(rcol, j).to_vec()).collect();
                r.g.fill_random(&mut cx.rf);
                for j in 0..rs_ {
                    r.poly_mut(rcol, j).copy_from_slice(&keep[j]);
                }
            }
            cx.reg_in("a", &a.g);
            cx.reg_out("res", &r.g, Ctx::sel_small(&r, rcol));
            cx.p("base2k", base2k);
            cx.p("a_base2k", a_base2k);
            cx.p("k", shift);
            cx.p("offset", off);
            cx.p("p", k_rot);
            key += &format!("|{base2k}|{a_base2k}|{shift}|{off}|{k_rot}");
            if n == 1 && op.contains("automorphism") {
                return skip(op, cx);
            }
            let out = match op {
                "vec_znx_copy" => go!(cx, module.vec_znx_copy(&mut r.view(), rcol, &a.rview(), acol)),
                "vec_znx_negate" => go!(cx, module.vec_znx_negate(&mut r.view(), rcol, &a.rview(), acol)),
                "vec_znx_rotate" => go!(cx, module.vec_znx_rotate(k_rot, &mut r.view(), rcol, &a.rview(), acol)),
                "vec_znx_automorphism" => go!(cx, module.vec_znx_automorphism(g_aut, &mut r.view(), rcol, &a.rview(), acol)),
                "vec_znx_mul_xp_minus_one" => go!(cx, module.vec_znx_mul_xp_minus_one(k_rot, &mut r.view(), rcol, &a.rview(), acol)),
                "vec_znx_add_assign" => go!(cx, module.vec_znx_add_assign(&mut r.view(), rcol, &a.rview(), acol)),
                "vec_znx_sub_assign" => go!(cx, module.vec_znx_sub_assign(&mut r.view(), rcol, &a.rview(), acol)),
                "vec_znx_sub_negate_assign" => go!(cx, module.vec_znx_sub_negate_assign(&mut r.view(), rcol, &a.rview(), acol)),
                "vec_znx_normalize" => {
                    let mut sw = cx.scratch(module.vec_znx_normalize_tmp_bytes());
                    go!(cx, module.vec_znx_normalize(&mut r.view(), base2k, off, rcol, &a.rview(), a_base2k, acol, sw.scratch()))
                }
                "vec_znx_lsh" | "vec_znx_lsh_add_into" | "vec_znx_lsh_sub" => {
                    let mut sw = cx.scratch(module.vec_znx_lsh_tmp_bytes());
                    match op {
                        "vec_znx_lsh" => go!(cx, module.vec_znx_lsh(base2k, shift, &mut r.view(), rcol, &a.rview(), acol, sw.scratch())),
                        "vec_znx_lsh_add_into" => go!(cx, module.vec_znx_lsh_add_into(base2k, shift, &mut r.view(), rcol, &a.rview(), acol, sw.scratch())),
                        _ => go!(cx, module.vec_znx_lsh_sub(base2k, shift, &mut r.view(), rcol, &a.rview(), acol, sw.scratch())),
                    }
                }
                _ => {
                    let mut sw = cx.scratch(module.vec_znx_rsh_tmp_bytes());
                    match op {
                        "vec_znx_rsh" => go!(cx, module.vec_znx_rsh(base2k, shift, &mut r.view(), rcol, &a.rview(), acol, sw.scratch())),
                        "vec_znx_rsh_add_into" => go!(cx, module.vec_znx_rsh_add_into(base2k, shift, &mut r.view(), rcol, &a.rview(), acol, sw.scratch())),
                        _ => go!(cx, module.vec_znx_rsh_sub(base2k, shift, &mut r.view(), rcol, &a.rview(), acol, sw.scratch())),
                    }
                }
            };
            cx.coeff_small(&r, rcol);
            out
        }
        "vec_znx_add_into" | "vec_znx_sub" => {
            let a = cx.small(n, ac, asz, asz, wide);
            let b = cx.small(n, bc, bsz, bsz, wide);
            let mut r = cx.small_out(n, rc, rs_, rcap);
            cx.reg_in("a", &a.g);
            cx.reg_in("b", &b.g);
            cx.reg_out("res", &r.g, Ctx::sel_small(&r, rcol));
            let out = if op == "vec_znx_add_into" {
                go!(cx, module.vec_znx_add_into(&mut r.view(), rcol, &a.rview(), acol, &b.rview(), bcol))
            } else {
                go!(cx, module.vec_znx_sub(&mut r.view(), rcol, &a.rview(), acol, &b.rview(), bcol))
            };
            cx.coeff_small(&r, rcol);
            out
        }
        "vec_znx_add_scalar_into" | "vec_znx_sub_scalar" | "vec_znx_add_scalar_assign" | "vec_znx_sub_scalar_assign" => {
            let s = cx.small(n, ac, 1, 1, wide);
            let b = cx.small(n, bc, bsz, bsz, wide);
            let assign = op.ends_with("_assign");
            let mut r = if assign { cx.small(n, rc, rs_, rcap, wide) } else { cx.small_out(n, rc, rs_, rcap) };
            let limb = cx.rs.usize_in(0, rs_.min(bsz) - 1);
            cx.p("limb", limb);
            cx.reg_in("scalar", &s.g);
            cx.reg_in("b", &b.g);
            let sel = if assign { vec![r.range(rcol, limb)] } else { Ctx::sel_small(&r, rcol) };
            cx.reg_out("res", &r.g, sel);
            let scalar = ScalarZnx { data: s.g.bytes(), n, cols: ac };
            let out = match op {
                "vec_znx_add_scalar_into" => go!(cx, module.vec_znx_add_scalar_into(&mut r.view(), rcol, &scalar, acol, &b.rview(), bcol, limb)),
                "vec_znx_sub_scalar" => go!(cx, module.vec_znx_sub_scalar(&mut r.view(), rcol, &scalar, acol, &b.rview(), bcol, limb)),
                "vec_znx_add_scalar_assign" => go!(cx, module.vec_znx_add_scalar_assign(&mut r.view(), rcol, limb, &scalar, acol)),
                _ => go!(cx, module.vec_znx_sub_scalar_assign(&mut r.view(), rcol, limb, &scalar, acol)),
            };
            cx.coeff_small(&r, rcol);
            out
        }
        "vec_znx_switch_ring" => {
            let ratio = 1usize << cx.rs.usize_in(0, 3);
            let up = cx.rs.coin();
            let (n_in, n_out) = if up { (n, n * ratio) } else { (n * ratio, n) };
            let a = cx.small(n_in, ac, asz, asz, 63);
            let mut r = cx.small_out(n_out, rc, rs_, rcap);
            cx.p("n_in", n_in);
            cx.p("n_out", n_out);
            key += &format!("|{n_in}>{n_out}");
            cx.reg_in("a", &a.g);
            cx.reg_out("res", &r.g, Ctx::sel_small(&r, rcol));
            let out = go!(cx, module.vec_znx_switch_ring(&mut r.view(), rcol, &a.rview(), acol));
            cx.coeff_small(&r, rcol);
            out
        }
        "vec_znx_split_ring" | "vec_znx_merge_rings" => {
            let max_log = (n.trailing_zeros() as usize).min(3);
            if max_log == 0 {
                return skip(op, cx);
            }
            let ratio = 1usize << cx.rs.usize_in(1, max_log);
            let m = n / ratio;
            cx.p("ratio", ratio);
            key += &format!("|r{ratio}");
            if op == "vec_znx_split_ring" {
                let a = cx.small(n, ac, asz, asz, 63);
                let mut parts: Vec<VBuf> = (0..ratio).map(|_| cx.small_out(m, rc, rs_, rcap)).collect();
                cx.reg_in("a", &a.g);
                for p in &parts {
                    let sel = Ctx::sel_small(p, rcol);
                    cx.reg_out("part", &p.g, sel);
                }
                let mut sw = cx.scratch(module.vec_znx_split_ring_tmp_bytes());
                let out = go!(cx, {
                    let mut views: Vec<VecZnx<&mut [u8]>> = parts.iter_mut().map(|p| p.view()).collect();
                    module.vec_znx_split_ring(&mut views, rcol, &a.rview(), acol, sw.scratch())
                });
                for p in &parts {
                    cx.coeff_small(p, rcol);
                }
                out
            } else {
                // parts may carry different limb counts (a missing limb counts as zero)
                let parts: Vec<VBuf> = (0..ratio).map(|_| { let ps = cx.rs.usize_in(1, 5); cx.small(m, ac, ps, ps, 63) }).collect();
                let mut r = cx.small_out(n, rc, rs_, rcap);
                for p in &parts {
                    cx.reg_in("part", &p.g);
                }
                cx.reg_out("res", &r.g, Ctx::sel_small(&r, rcol));
                let mut sw = cx.scratch(module.vec_znx_merge_rings_tmp_bytes());
                let out = go!(cx, {
                    let views: Vec<VecZnx<&[u8]>> = parts.iter().map(|p| p.rview()).collect();
                    module.vec_znx_merge_rings(&mut r.view(), rcol, &views, acol, sw.scratch())
                });
                cx.coeff_small(&r, rcol);
                out
            }
        }
        // ------------------------------------------------------------------ big accumulators
        "vec_znx_big_from_small" | "vec_znx_big_add_small_assign" | "vec_znx_big_sub_small_assign" | "vec_znx_big_sub_small_negate_assign" => {
            let a = cx.small(n, ac, asz, asz, wide);
            let mut r = if op == "vec_znx_big_from_small" { cx.big_out(n, rc, rs_, rcap) } else { let mut v = cx.big(n, rc, rs_, rcap, 100); garbage_around_big(&mut v, rcol, &mut cx.rf); v };
            cx.reg_in("a", &a.g);
            cx.reg_out("res", &r.g, Ctx::sel_big(&r, rcol));
            let out = match op {
                "vec_znx_big_from_small" => go!(cx, module.vec_znx_big_from_small(&mut r.view(), rcol, &a.rview(), acol)),
                "vec_znx_big_add_small_assign" => go!(cx, module.vec_znx_big_add_small_assign(&mut r.view(), rcol, &a.rview(), acol)),
                "vec_znx_big_sub_small_assign" => go!(cx, module.vec_znx_big_sub_small_assign(&mut r.view(), rcol, &a.rview(), acol)),
                _ => go!(cx, module.vec_znx_big_sub_small_negate_assign(&mut r.view(), rcol, &a.rview(), acol)),
            };
            cx.coeff_big(&r, rcol);
            out
        }
        "vec_znx_big_add_into" | "vec_znx_big_sub" | "vec_znx_big_add_small_into" | "vec_znx_big_sub_small_a" | "vec_znx_big_sub_small_b" => {
            let a = cx.big(n, ac, asz, asz, 100);
            let b = cx.big(n, bc, bsz, bsz, 100);
            let sa = cx.small(n, ac, asz, asz, wide);
            let sb = cx.small(n, bc, bsz, bsz, wide);
            let mut r = cx.big_out(n, rc, rs_, rcap);
            cx.reg_in("a", &a.g);
            cx.reg_in("b", &b.g);
            cx.reg_in("sa", &sa.g);
            cx.reg_in("sb", &sb.g);
            cx.reg_out("res", &r.g, Ctx::sel_big(&r, rcol));
            let out = match op {
                "vec_znx_big_add_into" => go!(cx, module.vec_znx_big_add_into(&mut r.view(), rcol, &a.rview(), acol, &b.rview(), bcol)),
                "vec_znx_big_sub" => go!(cx, module.vec_znx_big_sub(&mut r.view(), rcol, &a.rview(), acol, &b.rview(), bcol)),
                "vec_znx_big_add_small_into" => go!(cx, module.vec_znx_big_add_small_into(&mut r.view(), rcol, &a.rview(), acol, &sb.rview(), bcol)),
                "vec_znx_big_sub_small_a" => go!(cx, module.vec_znx_big_sub_small_a(&mut r.view(), rcol, &sa.rview(), acol, &b.rview(), bcol)),
                _ => go!(cx, module.vec_znx_big_sub_small_b(&mut r.view(), rcol, &a.rview(), acol, &sb.rview(), bcol)),
            };
            cx.coeff_big(&r, rcol);
            out
        }
        "vec_znx_big_add_assign" | "vec_znx_big_sub_assign" | "vec_znx_big_sub_negate_assign" | "vec_znx_big_negate" | "vec_znx_big_automorphism" => {
            let a = cx.big(n, ac, asz, asz, 100);
            let inplace = op.ends_with("_assign");
            let mut r = if inplace { let mut v = cx.big(n, rc, rs_, rcap, 100); garbage_around_big(&mut v, rcol, &mut cx.rf); v } else { cx.big_out(n, rc, rs_, rcap) };
            cx.reg_in("a", &a.g);
            cx.reg_out("res", &r.g, Ctx::sel_big(&r, rcol));
            cx.p("p", g_aut);
            if n == 1 && op.contains("automorphism") {
                return skip(op, cx);
            }
            let out = match op {
                "vec_znx_big_add_assign" => go!(cx, module.vec_znx_big_add_assign(&mut r.view(), rcol, &a.rview(), acol)),
                "vec_znx_big_sub_assign" => go!(cx, module.vec_znx_big_sub_assign(&mut r.view(), rcol, &a.rview(), acol)),
                "vec_znx_big_sub_negate_assign" => go!(cx, module.vec_znx_big_sub_negate_assign(&mut r.view(), rcol, &a.rview(), acol)),
                "vec_znx_big_negate" => go!(cx, module.vec_znx_big_negate(&mut r.view(), rcol, &a.rview(), acol)),
                _ => go!(cx, module.vec_znx_big_automorphism(g_aut, &mut r.view(), rcol, &a.rview(), acol)),
            };
            cx.coeff_big(&r, rcol);
            out
        }
        "vec_znx_big_negate_assign" | "vec_znx_big_automorphism_assign" | "vec_znx_big_add_normal" => {
            // add_normal: keep accumulator + scaled noise inside an i64 so that both families stay in their domain
            let base2k = if op == "vec_znx_big_add_normal" { base2k.min(50) } else { base2k };
            let mut r = cx.big(n, rc, rs_, rcap, if op == "vec_znx_big_add_normal" { 50 } else { 100 });
            garbage_around_big(&mut r, rcol, &mut cx.rf);
            cx.reg_out("res", &r.g, Ctx::sel_big(&r, rcol));
            let mut src = Source::new(cx.rd.seed32());
            let noise = NoiseInfos::new(cx.rs.usize_in(1, rs_ * base2k), 3.2, 19.2).unwrap();
            cx.p("base2k", base2k);
            if n == 1 && op.contains("automorphism") {
                return skip(op, cx);
            }
            let out = match op {
                "vec_znx_big_negate_assign" => go!(cx, module.vec_znx_big_negate_assign(&mut r.view(), rcol)),
                "vec_znx_big_automorphism_assign" => {
                    let mut sw = cx.scratch(module.vec_znx_big_automorphism_assign_tmp_bytes());
                    go!(cx, module.vec_znx_big_automorphism_assign(g_aut, &mut r.view(), rcol, sw.scratch()))
                }
                _ => go!(cx, module.vec_znx_big_add_normal(base2k, &mut r.view(), rcol, noise, &mut src)),
            };
            cx.coeff_big(&r, rcol);
            if op == "vec_znx_big_add_normal" {
                cx.coeff.push(src.next_i64() as i128);
            }
            out
        }
        "vec_znx_big_normalize" | "vec_znx_big_normalize_add_assign" | "vec_znx_big_normalize_sub_assign" | "vec_znx_big_normalize_negate" => {
            let ab = a_base2k.min(if BIG_BYTES == 8 || cx.opts.fft_safe { 50 } else { 52 });
            let a = cx.big(n, ac, asz, asz, if BIG_BYTES == 8 { 62 } else { 100 });
            let fused = op.ends_with("_assign");
            let mut r = if fused { cx.small(n, rc, rs_, rcap, base2k.min(40)) } else { cx.small_out(n, rc, rs_, rcap) };
            if fused {
                let keep: Vec<Vec<i64>> = (0..rs_).map(|j| r.poly(rcol, j).to_vec()).collect();
                r.g.fill_random(&mut cx.rf);
                for j in 0..rs_ {
                    r.poly_mut(rcol, j).copy_from_slice(&keep[j]);
                }
            }
            cx.reg_in("a", &a.g);
            cx.reg_out("res", &r.g, Ctx::sel_small(&r, rcol));
            cx.p("base2k", base2k);
            cx.p("a_base2k", ab);
            cx.p("offset", off);
            key += &format!("|{base2k}|{ab}|{off}");
            let mut sw = cx.scratch(module.vec_znx_big_normalize_tmp_bytes());
            let out = match op {
                "vec_znx_big_normalize" => go!(cx, module.vec_znx_big_normalize(&mut r.view(), base2k, off, rcol, &a.rview(), ab, acol, sw.scratch())),
                "vec_znx_big_normalize_add_assign" => go!(cx, module.vec_znx_big_normalize_add_assign(&mut r.view(), base2k, off, rcol, &a.rview(), ab, acol, sw.scratch())),
                "vec_znx_big_normalize_sub_assign" => go!(cx, module.vec_znx_big_normalize_sub_assign(&mut r.view(), base2k, off, rcol, &a.rview(), ab, acol, sw.scratch())),
                _ => go!(cx, module.vec_znx_big_normalize_negate(&mut r.view(), base2k, off, rcol, &a.rview(), ab, acol, sw.scratch())),
            };
            cx.coeff_small(&r, rcol);
            out
        }
        // ------------------------------------------------------------------ DFT domain
        "vec_znx_dft_apply" | "vec_znx_dft_zero" => {
            let bits = dft_bits(n, 1, 1, cx.opts.fft_safe);
            let a = cx.small(n, ac, asz, asz, bits);
            let mut r = cx.dft_out(n, rc, rs_, rcap);
            let step = cx.rs.usize_in(1, 3);
            let offset = cx.rs.usize_in(0, asz + 1);
            cx.p("step", step);
            cx.p("offset", offset);
            key += &format!("|{step}|{offset}");
            cx.reg_in("a", &a.g);
            cx.reg_out("res", &r.g, Ctx::sel_dft(&r, rcol));
            let out = if op == "vec_znx_dft_apply" {
                go!(cx, module.vec_znx_dft_apply(step, offset, &mut r.view(), rcol, &a.rview(), acol))
            } else {
                go!(cx, module.vec_znx_dft_zero(&mut r.view(), rcol))
            };
            if out.is_ok() {
                cx.coeff_dft(module, &r, rcol);
            }
            out
        }
        "vec_znx_idft_apply" | "vec_znx_idft_apply_tmpa" => {
            let bits = dft_bits(n, 1, 1, cx.opts.fft_safe);
            let a = cx.small(n, ac, asz, asz, bits);
            let mut ad = DftBuf::new(n, ac, asz, asz);
            for c in 0..ac {
                module.vec_znx_dft_apply(1, 0, &mut ad.view(), c, &a.rview(), c);
            }
            let mut r = cx.big_out(n, rc, rs_, rcap);
            if op == "vec_znx_idft_apply" {
                cx.reg_in("a_dft", &ad.g);
            }
            cx.reg_out("res", &r.g, Ctx::sel_big(&r, rcol));
            let out = if op == "vec_znx_idft_apply" {
                let mut sw = cx.scratch(module.vec_znx_idft_apply_tmp_bytes());
                go!(cx, module.vec_znx_idft_apply(&mut r.view(), rcol, &ad.rview(), acol, sw.scratch()))
            } else {
                go!(cx, module.vec_znx_idft_apply_tmpa(&mut r.view(), rcol, &mut ad.view(), acol))
            };
            cx.coeff_big(&r, rcol);
            out
        }
        "vec_znx_dft_add_into" | "vec_znx_dft_sub" | "vec_znx_dft_add_assign" | "vec_znx_dft_sub_assign" | "vec_znx_dft_sub_negate_assign"
        | "vec_znx_dft_add_scaled_assign" | "vec_znx_dft_copy" => {
            let bits = dft_bits(n, 2, 1, cx.opts.fft_safe).saturating_sub(1).max(1);
            let a = cx.small(n, ac, asz, asz, bits);
            let b = cx.small(n, bc, bsz, bsz, bits);
            let r0 = cx.small(n, rc, rs_, rs_, bits);
            let mut ad = DftBuf::new(n, ac, asz, asz);
            let mut bd = DftBuf::new(n, bc, bsz, bsz);
            for c in 0..ac {
                module.vec_znx_dft_apply(1, 0, &mut ad.view(), c, &a.rview(), c);
            }
            for c in 0..bc {
                module.vec_znx_dft_apply(1, 0, &mut bd.view(), c, &b.rview(), c);
            }
            let inplace = op.ends_with("_assign");
            let mut r = cx.dft_out(n, rc, rs_, rcap);
            if inplace {
                module.vec_znx_dft_apply(1, 0, &mut r.view(), rcol, &r0.rview(), rcol);
            }
            let step = cx.rs.usize_in(1, 3);
            let offset = cx.rs.usize_in(0, asz + 1);
            let scale = cx.rs.i64_in(-(rs_ as i64) - 1, asz as i64 + 1);
            cx.p("step", step);
            cx.p("offset", offset);
            cx.p("a_scale", scale);
            key += &format!("|{step}|{offset}|{scale}");
            cx.reg_in("a_dft", &ad.g);
            cx.reg_in("b_dft", &bd.g);
            cx.reg_out("res", &r.g, Ctx::sel_dft(&r, rcol));
            let out = match op {
                "vec_znx_dft_add_into" => go!(cx, module.vec_znx_dft_add_into(&mut r.view(), rcol, &ad.rview(), acol, &bd.rview(), bcol)),
                "vec_znx_dft_sub" => go!(cx, module.vec_znx_dft_sub(&mut r.view(), rcol, &ad.rview(), acol, &bd.rview(), bcol)),
                "vec_znx_dft_add_assign" => go!(cx, module.vec_znx_dft_add_assign(&mut r.view(), rcol, &ad.rview(), acol)),
                "vec_znx_dft_sub_assign" => go!(cx, module.vec_znx_dft_sub_assign(&mut r.view(), rcol, &ad.rview(), acol)),
                "vec_znx_dft_sub_negate_assign" => go!(cx, module.vec_znx_dft_sub_negate_assign(&mut r.view(), rcol, &ad.rview(), acol)),
                "vec_znx_dft_add_scaled_assign" => go!(cx, module.vec_znx_dft_add_scaled_assign(&mut r.view(), rcol, &ad.rview(), acol, scale)),
                _ => go!(cx, module.vec_znx_dft_copy(step, offset, &mut r.view(), rcol, &ad.rview(), acol)),
            };
            if out.is_ok() {
                cx.coeff_dft(module, &r, rcol);
            }
            out
        }
        "vec_znx_dft_chain" => {
            // 2..5 in-place DFT-domain additions / subtractions on one accumulator (lazy modular accumulation, repeated rounding)
            let len = cx.rs.usize_in(2, 5);
            let bits = dft_bits(n, len + 1, 1, cx.opts.fft_safe).saturating_sub(4).max(2);
            let r0 = cx.small(n, rc, rs_, rs_, bits);
            let xs: Vec<VBuf> = (0..len).map(|_| cx.small(n, ac, asz, asz, bits)).collect();
            let kinds: Vec<u64> = (0..len).map(|_| cx.rs.below(3)).collect();
            let mut r = cx.dft_out(n, rc, rs_, rcap);
            module.vec_znx_dft_apply(1, 0, &mut r.view(), rcol, &r0.rview(), rcol);
            let xds: Vec<DftBuf> = xs
                .iter()
                .map(|x| {
                    let mut d = DftBuf::new(n, ac, asz, asz);
                    for c in 0..ac {
                        module.vec_znx_dft_apply(1, 0, &mut d.view(), c, &x.rview(), c);
                    }
                    d
                })
                .collect();
            cx.p("chain", kinds.iter().map(|k| ["add", "sub", "sub_negate"][*k as usize]).collect::<Vec<_>>().join(","));
            key += &format!("|{kinds:?}");
            for d in &xds {
                cx.reg_in("x_dft", &d.g);
            }
            cx.reg_out("res", &r.g, Ctx::sel_dft(&r, rcol));
            let out = go!(cx, {
                for (d, k) in xds.iter().zip(&kinds) {
                    match k {
                        0 => module.vec_znx_dft_add_assign(&mut r.view(), rcol, &d.rview(), acol),
                        1 => module.vec_znx_dft_sub_assign(&mut r.view(), rcol, &d.rview(), acol),
                        _ => module.vec_znx_dft_sub_negate_assign(&mut r.view(), rcol, &d.rview(), acol),
                    }
                }
            });
            if out.is_ok() {
                cx.coeff_dft(module, &r, rcol);
            }
            out
        }
        "svp_prepare" | "svp_apply_dft" | "svp_apply_dft_to_dft" | "svp_apply_dft_to_dft_assign" => {
            let bits_s = *cx.rs.pick(&[1usize, 2, 8]);
            let bits_b = dft_bits(n, 1, bits_s, cx.opts.fft_safe);
            let s = cx.small(n, ac, 1, 1, bits_s);
            let b = cx.small(n, bc, bsz, bsz, bits_b);
            let scalar = ScalarZnx { data: s.g.bytes(), n, cols: ac };
            let mut ppol_g = Guarded::new(module.bytes_of_svp_ppol(ac), true);
            ppol_g.fill_random(&mut cx.rf);
            cx.reg_in("scalar", &s.g);
            if op == "svp_prepare" {
                let per = module.bytes_of_svp_ppol(1);
                cx.reg_out("ppol", &ppol_g, vec![acol * per..(acol + 1) * per]);
                let out = go!(cx, {
                    let mut ppol: SvpPPol<&mut [u8], BE> = SvpPPol::from_data(ppol_g.bytes_mut(), n, ac);
                    module.svp_prepare(&mut ppol, acol, &scalar, acol)
                });
                out
            } else {
                {
                    let mut ppol: SvpPPol<&mut [u8], BE> = SvpPPol::from_data(ppol_g.bytes_mut(), n, ac);
                    for c in 0..ac {
                        module.svp_prepare(&mut ppol, c, &scalar, c);
                    }
                }
                let mut bd = DftBuf::new(n, bc, bsz, bsz);
                for c in 0..bc {
                    module.vec_znx_dft_apply(1, 0, &mut bd.view(), c, &b.rview(), c);
                }
                let mut r = cx.dft_out(n, rc, rs_, rcap);
                if op == "svp_apply_dft_to_dft_assign" {
                    module.vec_znx_dft_apply(1, 0, &mut r.view(), rcol, &b.rview(), bcol);
                }
                cx.reg_in("b", &b.g);
                cx.reg_in("b_dft", &bd.g);
                cx.reg_in("ppol", &ppol_g);
                cx.reg_out("res", &r.g, Ctx::sel_dft(&r, rcol));
                let ppol: SvpPPol<&[u8], BE> = SvpPPol::from_data(ppol_g.bytes(), n, ac);
                let out = match op {
                    "svp_apply_dft" => go!(cx, module.svp_apply_dft(&mut r.view(), rcol, &ppol, acol, &b.rview(), bcol)),
                    "svp_apply_dft_to_dft" => go!(cx, module.svp_apply_dft_to_dft(&mut r.view(), rcol, &ppol, acol, &bd.rview(), bcol)),
                    _ => go!(cx, module.svp_apply_dft_to_dft_assign(&mut r.view(), rcol, &ppol, acol)),
                };
                if out.is_ok() {
                    cx.coeff_dft(module, &r, rcol);
                }
                out
            }
        }
        "vmp_prepare" | "vmp_apply_dft" | "vmp_apply_dft_to_dft" | "vmp_zero" => {
            let rows = cx.rs.usize_in(1, 4);
            let (cin, cout) = (cx.rs.usize_in(1, 3), cx.rs.usize_in(1, 3));
            let msz = cx.rs.usize_in(1, 4);
            let limb_offset = if op == "vmp_apply_dft_to_dft" { cx.rs.usize_in(0, msz + 1) } else { 0 };
            let bits_m = *cx.rs.pick(&[2usize, 8, 12]);
            let bits_a = dft_bits(n, rows.min(asz) * cin, bits_m, cx.opts.fft_safe).min(bits_m + 9);
            cx.p("rows", rows);
            cx.p("cols_in", cin);
            cx.p("cols_out", cout);
            cx.p("mat_size", msz);
            cx.p("limb_offset", limb_offset);
            key += &format!("|{rows}|{cin}|{cout}|{msz}|{limb_offset}");
            // vmp_apply_dft accepts fewer (right-aligned, missing ones count as zero) or more columns than cols_in
            let a_cols = if op == "vmp_apply_dft" { cx.rs.usize_in(1, cin + 1) } else { cin };
            cx.p("a_cols_vmp", a_cols);
            let a = cx.small(n, a_cols, asz, asz, bits_a);
            let mvals = cx.small(n, rows * cin * cout, msz, msz, bits_m); // flat source of matrix entries
            let mut mat_g = Guarded::new(MatZnx::<Vec<u8>>::bytes_of(n, rows, cin, cout, msz), true);
            {
                let mut mat: MatZnx<&mut [u8]> = MatZnx::from_data(mat_g.bytes_mut(), n, rows, cin, cout, msz);
                for ri in 0..rows {
                    for ci in 0..cin {
                        let mut dst = mat.at_mut(ri, ci);
                        for co in 0..cout {
                            for j in 0..msz {
                                dst.at_mut(co, j).copy_from_slice(mvals.poly((ri * cin + ci) * cout + co, j));
                            }
                        }
                    }
                }
            }
            let mut pmat_g = Guarded::new(module.bytes_of_vmp_pmat(rows, cin, cout, msz), true);
            pmat_g.fill_random(&mut cx.rf);
            if op == "vmp_prepare" || op == "vmp_zero" {
                cx.reg_in("mat", &mat_g);
                cx.reg_out("pmat", &pmat_g, vec![0..pmat_g.len()]);
                let mut sw = cx.scratch(module.vmp_prepare_tmp_bytes(rows, cin, cout, msz));
                let out = go!(cx, {
                    let mat: MatZnx<&[u8]> = MatZnx::from_data(mat_g.bytes(), n, rows, cin, cout, msz);
                    let mut pmat: VmpPMat<&mut [u8], BE> = VmpPMat::from_data(pmat_g.bytes_mut(), n, rows, cin, cout, msz);
                    if op == "vmp_prepare" { module.vmp_prepare(&mut pmat, &mat, sw.scratch()) } else { module.vmp_zero(&mut pmat) }
                });
                out
            } else {
                {
                    let mat: MatZnx<&[u8]> = MatZnx::from_data(mat_g.bytes(), n, rows, cin, cout, msz);
                    let mut pmat: VmpPMat<&mut [u8], BE> = VmpPMat::from_data(pmat_g.bytes_mut(), n, rows, cin, cout, msz);
                    let mut sw = ScratchWin::new(module.vmp_prepare_tmp_bytes(rows, cin, cout, msz) + 4096);
                    module.vmp_prepare(&mut pmat, &mat, sw.scratch());
                }
                let mut ad = DftBuf::new(n, a_cols, asz, asz);
                for c in 0..a_cols {
                    module.vec_znx_dft_apply(1, 0, &mut ad.view(), c, &a.rview(), c);
                }
                let mut r = cx.dft_out(n, cout, rs_, rcap);
                cx.reg_in("a", &a.g);
                cx.reg_in("a_dft", &ad.g);
                cx.reg_in("pmat", &pmat_g);
                let sel: Vec<std::ops::Range<usize>> = (0..cout).flat_map(|c| Ctx::sel_dft(&r, c)).collect();
                cx.reg_out("res", &r.g, sel);
                let pmat: VmpPMat<&[u8], BE> = VmpPMat::from_data(pmat_g.bytes(), n, rows, cin, cout, msz);
                let out = if op == "vmp_apply_dft" {
                    let mut sw = cx.scratch(module.vmp_apply_dft_tmp_bytes(rs_, asz, rows, cin, cout, msz));
                    go!(cx, module.vmp_apply_dft(&mut r.view(), &a.rview(), &pmat, sw.scratch()))
                } else {
                    let mut sw = cx.scratch(module.vmp_apply_dft_to_dft_tmp_bytes(rs_, asz, rows, cin, cout, msz));
                    go!(cx, module.vmp_apply_dft_to_dft(&mut r.view(), &ad.rview(), &pmat, limb_offset, sw.scratch()))
                };
                if out.is_ok() {
                    for c in 0..cout {
                        cx.coeff_dft(module, &r, c);
                    }
                }
                out
            }
        }
        "cnv_prepare_left" | "cnv_prepare_right" | "cnv_prepare_self" | "cnv_apply_dft" | "cnv_pairwise_apply_dft" | "cnv_by_const_apply" => {
            let cols = if op == "cnv_pairwise_apply_dft" { cx.rs.usize_in(2, 3) } else { cx.rs.usize_in(1, 3) };
            let (pasz, pbsz) = (cx.rs.usize_in(1, 5), cx.rs.usize_in(1, 5));
            let cnv_offset = cx.rs.usize_in(0, asz + bsz + 1);
            let (ci, cj) = (cx.rs.usize_in(0, cols - 1), cx.rs.usize_in(0, cols - 1));
            let terms = asz.min(bsz) * 4;
            let bits_b = *cx.rs.pick(&[4usize, 8, 12]);
            let ba = dft_bits(n, terms, bits_b + 1, cx.opts.fft_safe).min(bits_b + 4);
            let bself = (1..=ba).rev().find(|x| dft_bits(n, terms, *x + 1, cx.opts.fft_safe) > *x).unwrap_or(1);
            let bits_a = (if op == "cnv_prepare_self" { ba.min(bself) } else { ba }).saturating_sub(1).max(1);
            let a = cx.small(n, cols, asz, asz, bits_a);
            let b = cx.small(n, cols, bsz, bsz, bits_b.min(bits_a));
            let mask: i64 = if cx.rs.coin() { -1 } else { (-1i64) << cx.rs.usize_in(0, bits_a - 1) };
            cx.p("cols", cols);
            cx.p("b_size", bsz);
            cx.p("prep_a_size", pasz);
            cx.p("prep_b_size", pbsz);
            cx.p("cnv_offset", cnv_offset);
            cx.p("i", ci);
            cx.p("j", cj);
            cx.p("mask", mask);
            key += &format!("|{cols}|{pasz}|{pbsz}|{cnv_offset}|{ci}{cj}|{mask}");
            if op == "cnv_by_const_apply" {
                let bcst: Vec<i64> = (0..bsz).map(|_| cx.rd.signed_bits(bits_b)).collect();
                let mut r = cx.big_out(n, rc, rs_, rcap);
                cx.reg_in("a", &a.g);
                cx.reg_out("res", &r.g, Ctx::sel_big(&r, rcol));
                let mut sw = cx.scratch(module.cnv_by_const_apply_tmp_bytes(cnv_offset, rs_, asz, bsz));
                let out = go!(cx, module.cnv_by_const_apply(cnv_offset, &mut r.view(), rcol, &a.rview(), ci, &bcst, sw.scratch()));
                cx.coeff_big(&r, rcol);
                out
            } else {
                let self_mode = op == "cnv_prepare_self";
                let pbsz = if self_mode { pasz } else { pbsz };
                let mut left_g = Guarded::new(module.bytes_of_cnv_pvec_left(cols, pasz), true);
                let mut right_g = Guarded::new(module.bytes_of_cnv_pvec_right(cols, pbsz), true);
                left_g.fill_random(&mut cx.rf);
                right_g.fill_random(&mut cx.rf);
                cx.reg_in("a", &a.g);
                cx.reg_in("b", &b.g);
                if op.starts_with("cnv_prepare") {
                    if op != "cnv_prepare_right" {
                        cx.reg_out("left", &left_g, vec![0..left_g.len()]);
                    }
                    if op != "cnv_prepare_left" {
                        cx.reg_out("right", &right_g, vec![0..right_g.len()]);
                    }
                    let bytes = match op {
                        "cnv_prepare_left" => module.cnv_prepare_left_tmp_bytes(pasz, asz),
                        "cnv_prepare_right" => module.cnv_prepare_right_tmp_bytes(pbsz, bsz),
                        _ => module.cnv_prepare_self_tmp_bytes(pasz, asz),
                    };
                    let mut sw = cx.scratch(bytes);
                    let out = go!(cx, {
                        let mut left: CnvPVecL<&mut [u8], BE> = CnvPVecL::from_data(left_g.bytes_mut(), n, cols, pasz);
                        let mut right: CnvPVecR<&mut [u8], BE> = CnvPVecR::from_data(right_g.bytes_mut(), n, cols, pbsz);
                        match op {
                            "cnv_prepare_left" => module.cnv_prepare_left(&mut left, &a.rview(), mask, sw.scratch()),
                            "cnv_prepare_right" => module.cnv_prepare_right(&mut right, &b.rview(), mask, sw.scratch()),
                            _ => module.cnv_prepare_self(&mut left, &mut right, &a.rview(), mask, sw.scratch()),
                        }
                    });
                    out
                } else {
                    {
                        let mut left: CnvPVecL<&mut [u8], BE> = CnvPVecL::from_data(left_g.bytes_mut(), n, cols, pasz);
                        let mut right: CnvPVecR<&mut [u8], BE> = CnvPVecR::from_data(right_g.bytes_mut(), n, cols, pbsz);
                        let mut sw = ScratchWin::new(module.cnv_prepare_left_tmp_bytes(pasz, asz).max(module.cnv_prepare_right_tmp_bytes(pbsz, bsz)) + 4096);
                        module.cnv_prepare_left(&mut left, &a.rview(), mask, sw.scratch());
                        module.cnv_prepare_right(&mut right, &b.rview(), -1, sw.scratch());
                    }
                    let mut r = cx.dft_out(n, rc, rs_, rcap);
                    cx.reg_in("left", &left_g);
                    cx.reg_in("right", &right_g);
                    cx.reg_out("res", &r.g, Ctx::sel_dft(&r, rcol));
                    let left: CnvPVecL<&[u8], BE> = CnvPVecL::from_data(left_g.bytes(), n, cols, pasz);
                    let right: CnvPVecR<&[u8], BE> = CnvPVecR::from_data(right_g.bytes(), n, cols, pbsz);
                    let out = if op == "cnv_apply_dft" {
                        let mut sw = cx.scratch(module.cnv_apply_dft_tmp_bytes(cnv_offset, rs_, pasz, pbsz));
                        go!(cx, module.cnv_apply_dft(cnv_offset, &mut r.view(), rcol, &left, ci, &right, cj, sw.scratch()))
                    } else {
                        let mut sw = cx.scratch(module.cnv_pairwise_apply_dft_tmp_bytes(cnv_offset, rs_, pasz, pbsz));
                        go!(cx, module.cnv_pairwise_apply_dft(cnv_offset, &mut r.view(), rcol, &left, &right, ci, cj, sw.scratch()))
                    };
                    if out.is_ok() {
                        cx.coeff_dft(module, &r, rcol);
                    }
                    out
                }
            }
        }
        _ => panic!("hal_ops: unknown op {op}"),
    };
    if cx.coeff.iter().all(|x| *x == 0) && !op.contains("zero") {
        nontrivial = nontrivial && op.contains("prepare");
    }
    finish(op, cx, res, key, nontrivial)
}

fn garbage_around_big(v: &mut BigBuf, col: usize, rf: &mut Rng) {
    let keep: Vec<Vec<i128>> = (0..v.size).map(|j| v.poly(col, j)).collect();
    v.g.fill_random(rf);
    for j in 0..v.size {
        for i in 0..v.n {
            v.set(col, j, i, keep[j][i]);
        }
    }
}

fn skip(op: &'static str, cx: Ctx) -> Outcome {
    Outcome { op, desc: cx.desc, key: String::new(), panic: None, selected_bytes: vec![], stray: None, coeff: vec![], tmp_bytes: 0, nontrivial: false, folded: 0 }
}

fn finish(op: &'static str, cx: Ctx, res: Result<(), String>, key: String, nontrivial: bool) -> Outcome {
    let mut folded = 0u64;
    if cx.opts.fold {
        // data-dependent branches on every selected output byte: makes uninitialised outputs visible to memcheck
        for b in &cx.selected_bytes {
            if *b & 1 == 1 {
                folded = folded.wrapping_add(1);
            } else {
                folded = folded.rotate_left(1);
            }
        }
    }
    Outcome { op, desc: cx.desc, key, panic: res.err(), selected_bytes: cx.selected_bytes, stray: cx.stray, coeff: cx.coeff, tmp_bytes: cx.tmp_bytes, nontrivial, folded }
}
