//! Small self-contained utilities: PRNG, JSON emitter, panic capture, hashing.
use std::cell::RefCell;
use std::collections::{BTreeMap, HashSet};
use std::fmt::Write as _;
use std::panic::{AssertUnwindSafe, catch_unwind};

// ---------------------------------------------------------------------------------------------
// PRNG: xoshiro256** seeded through splitmix64 (independent from the library's ChaCha source)
// ---------------------------------------------------------------------------------------------
#[derive(Clone, Debug)]
pub struct Rng {
    s: [u64; 4],
}

fn splitmix(x: &mut u64) -> u64 {
    *x = x.wrapping_add(0x9e3779b97f4a7c15);
    let mut z = *x;
    z = (z ^ (z >> 30)).wrapping_mul(0xbf58476d1ce4e5b9);
    z = (z ^ (z >> 27)).wrapping_mul(0x94d049bb133111eb);
    z ^ (z >> 31)
}

impl Rng {
    pub fn new(seed: u64, stream: u64) -> Self {
        let mut x = seed ^ stream.wrapping_mul(0xd1342543de82ef95).rotate_left(17);
        let mut s = [0u64; 4];
        for v in s.iter_mut() {
            *v = splitmix(&mut x);
        }
        Rng { s }
    }
    pub fn next_u64(&mut self) -> u64 {
        let r = self.s[1].wrapping_mul(5).rotate_left(7).wrapping_mul(9);
        let t = self.s[1] << 17;
        self.s[2] ^= self.s[0];
        self.s[3] ^= self.s[1];
        self.s[1] ^= self.s[2];
        self.s[0] ^= self.s[3];
        self.s[2] ^= t;
        self.s[3] = self.s[3].rotate_left(45);
        r
    }
    pub fn next_i64(&mut self) -> i64 {
        self.next_u64() as i64
    }
    /// uniform in [0, n)
    pub fn below(&mut self, n: u64) -> u64 {
        if n <= 1 {
            return 0;
        }
        // multiply-shift (bias negligible for the sizes used here)
        ((self.next_u64() as u128 * n as u128) >> 64) as u64
    }
    pub fn usize_in(&mut self, lo: usize, hi_incl: usize) -> usize {
        lo + self.below((hi_incl - lo + 1) as u64) as usize
    }
    pub fn i64_in(&mut self, lo: i64, hi_incl: i64) -> i64 {
        let span = (hi_incl as i128 - lo as i128 + 1) as u128;
        (lo as i128 + ((self.next_u64() as u128 * span) >> 64) as i128) as i64
    }
    pub fn coin(&mut self) -> bool {
        self.next_u64() & 1 == 1
    }
    pub fn chance(&mut self, num: u64, den: u64) -> bool {
        self.below(den) < num
    }
    pub fn pick<'a, T>(&mut self, xs: &'a [T]) -> &'a T {
        &xs[self.below(xs.len() as u64) as usize]
    }
    /// signed value uniformly in [-2^(bits-1), 2^(bits-1))
    pub fn signed_bits(&mut self, bits: usize) -> i64 {
        if bits == 0 {
            return 0;
        }
        if bits >= 64 {
            return self.next_i64();
        }
        ((self.next_u64() << (64 - bits)) as i64) >> (64 - bits)
    }
    pub fn seed32(&mut self) -> [u8; 32] {
        let mut s = [0u8; 32];
        for c in s.chunks_mut(8) {
            c.copy_from_slice(&self.next_u64().to_le_bytes());
        }
        s
    }
    pub fn fill_bytes(&mut self, b: &mut [u8]) {
        for c in b.chunks_mut(8) {
            let v = self.next_u64().to_le_bytes();
            c.copy_from_slice(&v[..c.len()]);
        }
    }
}

pub fn fnv(s: &str) -> u64 {
    let mut h = 0xcbf29ce484222325u64;
    for b in s.bytes() {
        h ^= b as u64;
        h = h.wrapping_mul(0x100000001b3);
    }
    h
}

pub fn fnv_bytes(bs: &[u8]) -> u64 {
    let mut h = 0xcbf29ce484222325u64;
    for b in bs {
        h ^= *b as u64;
        h = h.wrapping_mul(0x100000001b3);
    }
    h
}

// ---------------------------------------------------------------------------------------------
// JSON
// ---------------------------------------------------------------------------------------------
#[derive(Clone, Debug)]
pub enum J {
    Null,
    B(bool),
    I(i128),
    F(f64),
    S(String),
    A(Vec<J>),
    O(Vec<(String, J)>),
}

impl J {
    pub fn obj() -> J {
        J::O(Vec::new())
    }
    pub fn set(mut self, k: &str, v: impl Into<J>) -> J {
        if let J::O(ref mut o) = self {
            o.push((k.to_string(), v.into()));
        }
        self
    }
    pub fn put(&mut self, k: &str, v: impl Into<J>) {
        if let J::O(o) = self {
            o.push((k.to_string(), v.into()));
        }
    }
    pub fn render(&self) -> String {
        let mut s = String::new();
        self.write(&mut s);
        s
    }
    fn write(&self, out: &mut String) {
        match self {
            J::Null => out.push_str("null"),
            J::B(b) => out.push_str(if *b { "true" } else { "false" }),
            J::I(i) => {
                let _ = write!(out, "{i}");
            }
            J::F(f) => {
                if f.is_finite() {
                    let _ = write!(out, "{f:e}");
                } else {
                    out.push_str("null");
                }
            }
            J::S(s) => {
                out.push('"');
                for c in s.chars() {
                    match c {
                        '"' => out.push_str("\\\""),
                        '\\' => out.push_str("\\\\"),
                        '\n' => out.push_str("\\n"),
                        '\r' => out.push_str("\\r"),
                        '\t' => out.push_str("\\t"),
                        c if (c as u32) < 0x20 => {
                            let _ = write!(out, "\\u{:04x}", c as u32);
                        }
                        c => out.push(c),
                    }
                }
                out.push('"');
            }
            J::A(a) => {
                out.push('[');
                for (i, x) in a.iter().enumerate() {
                    if i > 0 {
                        out.push(',');
                    }
                    x.write(out);
                }
                out.push(']');
            }
            J::O(o) => {
                out.push('{');
                for (i, (k, v)) in o.iter().enumerate() {
                    if i > 0 {
                        out.push(',');
                    }
                    J::S(k.clone()).write(out);
                    out.push(':');
                    v.write(out);
                }
                out.push('}');
            }
        }
    }
}

macro_rules! jfrom_int { ($($t:ty),*) => { $( impl From<$t> for J { fn from(x: $t) -> J { J::I(x as i128) } } )* } }
jfrom_int!(i8, i16, i32, i64, i128, u8, u16, u32, u64, usize, isize);
impl From<f64> for J {
    fn from(x: f64) -> J {
        J::F(x)
    }
}
impl From<bool> for J {
    fn from(x: bool) -> J {
        J::B(x)
    }
}
impl From<&str> for J {
    fn from(x: &str) -> J {
        J::S(x.to_string())
    }
}
impl From<String> for J {
    fn from(x: String) -> J {
        J::S(x)
    }
}
impl<T: Into<J>> From<Vec<T>> for J {
    fn from(x: Vec<T>) -> J {
        J::A(x.into_iter().map(|v| v.into()).collect())
    }
}
impl<T: Into<J> + Clone> From<&[T]> for J {
    fn from(x: &[T]) -> J {
        J::A(x.iter().map(|v| v.clone().into()).collect())
    }
}

/// `jo!{"k" => v, ...}` builds a JSON object preserving key order.
#[macro_export]
macro_rules! jo {
    ($($k:expr => $v:expr),* $(,)?) => {{
        #[allow(unused_mut)]
        let mut o = $crate::util::J::obj();
        $( o.put($k, $v); )*
        o
    }};
}

// ---------------------------------------------------------------------------------------------
// Panic capture
// ---------------------------------------------------------------------------------------------
thread_local! {
    static LAST_PANIC: RefCell<Option<String>> = const { RefCell::new(None) };
    static QUIET: RefCell<bool> = const { RefCell::new(false) };
}

pub fn install_panic_hook() {
    let default = std::panic::take_hook();
    std::panic::set_hook(Box::new(move |info| {
        let quiet = QUIET.with(|q| *q.borrow());
        let msg = {
            let payload = info.payload();
            let m = if let Some(s) = payload.downcast_ref::<&str>() {
                s.to_string()
            } else if let Some(s) = payload.downcast_ref::<String>() {
                s.clone()
            } else {
                "<non-string panic>".to_string()
            };
            let loc = info.location().map(|l| format!("{}:{}", l.file(), l.line())).unwrap_or_default();
            format!("{} @ {}", m.lines().take(3).collect::<Vec<_>>().join(" | "), loc)
        };
        LAST_PANIC.with(|p| *p.borrow_mut() = Some(msg));
        if !quiet {
            default(info);
        }
    }));
}

/// Run `f`, returning Err(panic message) if it panicked. The panic message is not printed.
pub fn guarded<R>(f: impl FnOnce() -> R) -> Result<R, String> {
    QUIET.with(|q| *q.borrow_mut() = true);
    LAST_PANIC.with(|p| *p.borrow_mut() = None);
    let r = catch_unwind(AssertUnwindSafe(f));
    QUIET.with(|q| *q.borrow_mut() = false);
    match r {
        Ok(v) => Ok(v),
        Err(_) => Err(LAST_PANIC.with(|p| p.borrow_mut().take()).unwrap_or_else(|| "<panic>".into())),
    }
}

// ---------------------------------------------------------------------------------------------
// Report
// ---------------------------------------------------------------------------------------------
#[derive(Clone, Debug)]
pub struct Violation {
    pub op: String,
    pub desc: J,
    pub detail: String,
}

pub struct Report {
    pub prop: String,
    pub evaluations: u64,
    pub distinct: HashSet<u64>,
    pub trivial: u64,
    pub samples: Vec<J>,
    pub max_samples: usize,
    pub violations: Vec<Violation>,
    pub violation_count: u64,
    pub per_op: BTreeMap<String, u64>,
    pub counters: BTreeMap<String, i128>,
    pub maxima: BTreeMap<String, f64>,
    pub notes: Vec<String>,
    pub inconclusive: Vec<String>,
    pub extra: Vec<(String, J)>,
}

impl Report {
    pub fn new(prop: &str) -> Self {
        Report {
            prop: prop.to_string(),
            evaluations: 0,
            distinct: HashSet::new(),
            trivial: 0,
            samples: Vec::new(),
            max_samples: 12,
            violations: Vec::new(),
            violation_count: 0,
            per_op: BTreeMap::new(),
            counters: BTreeMap::new(),
            maxima: BTreeMap::new(),
            notes: Vec::new(),
            inconclusive: Vec::new(),
            extra: Vec::new(),
        }
    }
    /// Register one oracle evaluation. `key` identifies the case (op + parameters + value class);
    /// `nontrivial` says whether it counts towards distinct_nontrivial.
    pub fn case(&mut self, op: &str, key: &str, nontrivial: bool) {
        self.evaluations += 1;
        *self.per_op.entry(op.to_string()).or_insert(0) += 1;
        if nontrivial {
            self.distinct.insert(fnv(op) ^ fnv(key).rotate_left(23));
        } else {
            self.trivial += 1;
        }
    }
    pub fn sample(&mut self, j: J) {
        if self.samples.len() < self.max_samples {
            self.samples.push(j);
        }
    }
    /// keep one sample per op (first seen) up to a cap
    pub fn sample_for_op(&mut self, op: &str, j: impl FnOnce() -> J) {
        let k = format!("sampled:{op}");
        if !self.counters.contains_key(&k) && self.samples.len() < 64 {
            self.counters.insert(k, 1);
            self.samples.push(j());
        }
    }
    pub fn violate(&mut self, op: &str, desc: J, detail: String) {
        self.violation_count += 1;
        let same = self.violations.iter().filter(|v| v.op == op).count();
        if same < 40 && self.violations.len() < 400 {
            self.violations.push(Violation { op: op.to_string(), desc, detail });
        }
    }
    pub fn count(&mut self, k: &str, by: i128) {
        *self.counters.entry(k.to_string()).or_insert(0) += by;
    }
    pub fn maxf(&mut self, k: &str, v: f64) {
        let e = self.maxima.entry(k.to_string()).or_insert(f64::NEG_INFINITY);
        if v > *e {
            *e = v;
        }
    }
    pub fn to_json(&self) -> J {
        let mut distinct: Vec<u64> = self.distinct.iter().copied().collect();
        distinct.sort_unstable();
        let mut o = J::obj();
        o.put("prop", self.prop.as_str());
        o.put("evaluations", self.evaluations);
        o.put("trivial", self.trivial);
        o.put("distinct_count", distinct.len());
        o.put("samples", J::A(self.samples.clone()));
        o.put("violation_count", self.violation_count);
        o.put(
            "violations",
            J::A(self
                .violations
                .iter()
                .map(|v| jo! {"op" => v.op.as_str(), "desc" => v.desc.clone(), "detail" => v.detail.as_str()})
                .collect()),
        );
        o.put("per_op", J::O(self.per_op.iter().map(|(k, v)| (k.clone(), J::I(*v as i128))).collect()));
        o.put(
            "counters",
            J::O(self.counters.iter().filter(|(k, _)| !k.starts_with("sampled:")).map(|(k, v)| (k.clone(), J::I(*v))).collect()),
        );
        o.put("maxima", J::O(self.maxima.iter().map(|(k, v)| (k.clone(), J::F(*v))).collect()));
        o.put("notes", J::A(self.notes.iter().map(|s| J::S(s.clone())).collect()));
        o.put("inconclusive", J::A(self.inconclusive.iter().map(|s| J::S(s.clone())).collect()));
        for (k, v) in &self.extra {
            o.put(k, v.clone());
        }
        o
    }
    pub fn write(&self, path: &str) {
        // distinct case hashes go to a binary side file (sorted u64 LE); the driver counts the union over shards
        let mut distinct: Vec<u64> = self.distinct.iter().copied().collect();
        distinct.sort_unstable();
        let mut bytes = Vec::with_capacity(distinct.len() * 8);
        for h in &distinct {
            bytes.extend_from_slice(&h.to_le_bytes());
        }
        std::fs::write(format!("{path}.distinct"), bytes).expect("write distinct file");
        std::fs::write(path, self.to_json().render()).expect("write report");
    }
}

// ---------------------------------------------------------------------------------------------
// Run configuration (parsed from argv; never from the environment, so Miri can use it too)
// ---------------------------------------------------------------------------------------------
#[derive(Clone, Debug)]
pub struct Cfg {
    pub prop: String,
    pub seed: u64,
    pub shard: u64,
    pub nshards: u64,
    pub thorough: bool,
    pub backend: String,
    pub out: String,
    pub replay: Option<String>,
    pub scale: f64,
    pub mode: String,
    pub extra: BTreeMap<String, String>,
}

impl Cfg {
    pub fn parse(args: &[String]) -> Cfg {
        let mut c = Cfg {
            prop: args.first().cloned().unwrap_or_default(),
            seed: 1,
            shard: 0,
            nshards: 1,
            thorough: false,
            backend: "all".into(),
            out: String::new(),
            replay: None,
            scale: 1.0,
            mode: String::new(),
            extra: BTreeMap::new(),
        };
        let mut i = 1;
        while i < args.len() {
            let a = args[i].as_str();
            let v = args.get(i + 1).cloned().unwrap_or_default();
            match a {
                "--seed" => c.seed = v.parse().unwrap_or(1),
                "--shard" => {
                    let mut it = v.split('/');
                    c.shard = it.next().unwrap().parse().unwrap();
                    c.nshards = it.next().unwrap().parse().unwrap();
                }
                "--tier" => c.thorough = v == "thorough",
                "--backend" => c.backend = v,
                "--out" => c.out = v,
                "--replay" => c.replay = Some(v),
                "--scale" => c.scale = v.parse().unwrap_or(1.0),
                "--mode" => c.mode = v,
                _ => {
                    if let Some(k) = a.strip_prefix("--") {
                        c.extra.insert(k.to_string(), v);
                    }
                }
            }
            i += 2;
        }
        c
    }
    /// number of cases for this shard given the per-run totals for quick / thorough
    pub fn budget(&self, quick: u64, thorough: u64) -> u64 {
        let total = if self.thorough { thorough } else { quick } as f64 * self.scale;
        ((total / self.nshards as f64).ceil() as u64).max(1)
    }
    pub fn rng(&self, stream: &str) -> Rng {
        Rng::new(self.seed.wrapping_mul(0x9e3779b97f4a7c15) ^ (self.shard << 40), fnv(stream))
    }
    pub fn wants_backend(&self, name: &str) -> bool {
        self.backend == "all" || self.backend.split(',').any(|b| b == name)
    }
}

/// `pvm count-distinct <dir>`: number of distinct u64 hashes in the union of all `*.distinct` files of a directory.
pub fn count_distinct(dir: &str) -> u64 {
    let mut all: Vec<u64> = Vec::new();
    if let Ok(rd) = std::fs::read_dir(dir) {
        for e in rd.flatten() {
            let p = e.path();
            if p.extension().map(|x| x == "distinct").unwrap_or(false) {
                if let Ok(b) = std::fs::read(&p) {
                    all.extend(b.chunks_exact(8).map(|c| u64::from_le_bytes(c.try_into().unwrap())));
                }
            }
        }
    }
    all.sort_unstable();
    all.dedup();
    all.len() as u64
}
