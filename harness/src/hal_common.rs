// Included once per backend module; `BE`, `BE_NAME`, `IS_FFT64` are defined by the includer.
#[allow(unused_imports)]
pub use crate::arena::{ASAN, GUARD, GuardRef, Guarded, poison, unpoison};
#[allow(unused_imports)]
pub use crate::exact::*;
#[allow(unused_imports)]
pub use crate::util::{Cfg, J, Report, Rng, fnv, fnv_bytes, guarded};
#[allow(unused_imports)]
pub use poulpy_hal::{api::*, layouts::*, source::Source};
#[allow(unused_imports)]
pub use std::marker::PhantomData;

pub const BIG_BYTES: usize = std::mem::size_of::<<BE as Backend>::ScalarBig>();
pub const PREP_BYTES: usize = std::mem::size_of::<<BE as Backend>::ScalarPrep>();

pub fn new_module(n: usize) -> Module<BE> {
    Module::<BE>::new(n as u64)
}

thread_local! {
    static MODULES: std::cell::RefCell<std::collections::HashMap<usize, &'static Module<BE>>> = std::cell::RefCell::new(std::collections::HashMap::new());
}

/// one module per ring degree, created once per thread and never dropped (table generation is expensive under Miri / valgrind)
pub fn cached_module(n: usize) -> &'static Module<BE> {
    MODULES.with(|m| *m.borrow_mut().entry(n).or_insert_with(|| Box::leak(Box::new(new_module(n)))))
}

/// Small-coefficient vector (i64 limbs) inside a guarded allocation, with spare capacity.
pub struct VBuf {
    pub g: Guarded,
    pub n: usize,
    pub cols: usize,
    pub size: usize,
    pub cap: usize,
}

impl VBuf {
    pub fn new(n: usize, cols: usize, size: usize, cap: usize) -> Self {
        assert!(cap >= size);
        VBuf { g: Guarded::new(n * cols * cap * 8, true), n, cols, size, cap }
    }
    pub fn view(&mut self) -> VecZnx<&mut [u8]> {
        let (n, cols, size, cap) = (self.n, self.cols, self.size, self.cap);
        VecZnx { data: self.g.bytes_mut(), n, cols, size, max_size: cap }
    }
    pub fn rview(&self) -> VecZnx<&[u8]> {
        VecZnx { data: self.g.bytes(), n: self.n, cols: self.cols, size: self.size, max_size: self.cap }
    }
    pub fn idx(&self, col: usize, limb: usize) -> usize {
        self.n * (limb * self.cols + col)
    }
    pub fn poly(&self, col: usize, limb: usize) -> &[i64] {
        let o = self.idx(col, limb);
        &self.g.i64s()[o..o + self.n]
    }
    pub fn poly_mut(&mut self, col: usize, limb: usize) -> &mut [i64] {
        let o = self.idx(col, limb);
        let n = self.n;
        &mut self.g.i64s_mut()[o..o + n]
    }
    /// limbs 0..size of coefficient `i` of column `col`
    pub fn coeff_limbs(&self, col: usize, i: usize) -> Vec<i64> {
        (0..self.size).map(|j| self.poly(col, j)[i]).collect()
    }
    pub fn fill_with(&mut self, mut f: impl FnMut(usize, usize, usize) -> i64) {
        for j in 0..self.cap {
            for c in 0..self.cols {
                for i in 0..self.n {
                    let v = f(c, j, i);
                    self.poly_mut(c, j)[i] = v;
                }
            }
        }
    }
    pub fn fill_garbage(&mut self, rng: &mut Rng) {
        self.g.fill_random(rng);
    }
    pub fn snapshot(&self) -> Vec<u8> {
        self.g.bytes().to_vec()
    }
    /// byte range of (col, limb) inside the payload
    pub fn range(&self, col: usize, limb: usize) -> std::ops::Range<usize> {
        let o = self.idx(col, limb) * 8;
        o..o + self.n * 8
    }
}

/// Big-accumulator vector (i64 on FFT64, i128 on NTT120).
pub struct BigBuf {
    pub g: Guarded,
    pub n: usize,
    pub cols: usize,
    pub size: usize,
    pub cap: usize,
}

impl BigBuf {
    pub fn new(n: usize, cols: usize, size: usize, cap: usize) -> Self {
        assert!(cap >= size);
        BigBuf { g: Guarded::new(n * cols * cap * BIG_BYTES, true), n, cols, size, cap }
    }
    pub fn view(&mut self) -> VecZnxBig<&mut [u8], BE> {
        let (n, cols, size, cap) = (self.n, self.cols, self.size, self.cap);
        VecZnxBig { data: self.g.bytes_mut(), n, cols, size, max_size: cap, _phantom: PhantomData }
    }
    pub fn rview(&self) -> VecZnxBig<&[u8], BE> {
        VecZnxBig { data: self.g.bytes(), n: self.n, cols: self.cols, size: self.size, max_size: self.cap, _phantom: PhantomData }
    }
    pub fn idx(&self, col: usize, limb: usize) -> usize {
        self.n * (limb * self.cols + col)
    }
    pub fn get(&self, col: usize, limb: usize, i: usize) -> i128 {
        let o = (self.idx(col, limb) + i) * BIG_BYTES;
        let b = &self.g.bytes()[o..o + BIG_BYTES];
        if BIG_BYTES == 8 { i64::from_le_bytes(b.try_into().unwrap()) as i128 } else { i128::from_le_bytes(b.try_into().unwrap()) }
    }
    pub fn set(&mut self, col: usize, limb: usize, i: usize, v: i128) {
        let o = (self.idx(col, limb) + i) * BIG_BYTES;
        let b = &mut self.g.bytes_mut()[o..o + BIG_BYTES];
        if BIG_BYTES == 8 { b.copy_from_slice(&(v as i64).to_le_bytes()) } else { b.copy_from_slice(&v.to_le_bytes()) }
    }
    pub fn poly(&self, col: usize, limb: usize) -> Vec<i128> {
        (0..self.n).map(|i| self.get(col, limb, i)).collect()
    }
    pub fn fill_with(&mut self, mut f: impl FnMut(usize, usize, usize) -> i128) {
        for j in 0..self.cap {
            for c in 0..self.cols {
                for i in 0..self.n {
                    let v = f(c, j, i);
                    self.set(c, j, i, v);
                }
            }
        }
    }
    pub fn fill_garbage(&mut self, rng: &mut Rng) {
        self.g.fill_random(rng);
    }
    pub fn snapshot(&self) -> Vec<u8> {
        self.g.bytes().to_vec()
    }
    pub fn range(&self, col: usize, limb: usize) -> std::ops::Range<usize> {
        let o = self.idx(col, limb) * BIG_BYTES;
        o..o + self.n * BIG_BYTES
    }
}

/// DFT-domain vector (opaque prepared scalars).
pub struct DftBuf {
    pub g: Guarded,
    pub n: usize,
    pub cols: usize,
    pub size: usize,
    pub cap: usize,
}

impl DftBuf {
    pub fn new(n: usize, cols: usize, size: usize, cap: usize) -> Self {
        assert!(cap >= size);
        DftBuf { g: Guarded::new(n * cols * cap * PREP_BYTES, true), n, cols, size, cap }
    }
    pub fn view(&mut self) -> VecZnxDft<&mut [u8], BE> {
        let (n, cols, size, cap) = (self.n, self.cols, self.size, self.cap);
        VecZnxDft { data: self.g.bytes_mut(), n, cols, size, max_size: cap, _phantom: PhantomData }
    }
    pub fn rview(&self) -> VecZnxDft<&[u8], BE> {
        VecZnxDft { data: self.g.bytes(), n: self.n, cols: self.cols, size: self.size, max_size: self.cap, _phantom: PhantomData }
    }
    pub fn snapshot(&self) -> Vec<u8> {
        self.g.bytes().to_vec()
    }
    pub fn range(&self, col: usize, limb: usize) -> std::ops::Range<usize> {
        let o = self.n * (limb * self.cols + col) * PREP_BYTES;
        o..o + self.n * PREP_BYTES
    }
    /// fill with the DFT image of zero garbage that is still a *valid* prepared value: all-zero bytes
    pub fn fill_zero(&mut self) {
        self.g.fill_byte(0);
    }
}

/// Scratch window of exactly `len` usable bytes, flush against the end of its allocation.
/// With `off > 0` the slice handed to the library starts `off` bytes past a 64-byte boundary (an arbitrary user slice given to
/// `Scratch::from_bytes`): it is `pad + len` bytes long with `pad = 64 - off`, so that exactly `len` bytes remain after the
/// library's own re-alignment.
pub struct ScratchWin {
    pub g: Guarded,
    pub off: usize,
}

impl ScratchWin {
    pub fn new(len: usize) -> Self {
        ScratchWin { g: Guarded::new(len, false), off: 0 }
    }
    pub fn new_uninit(len: usize) -> Self {
        ScratchWin { g: Guarded::new_uninit(len), off: 0 }
    }
    pub fn new_misaligned(len: usize, off: usize) -> Self {
        let off = off % 64;
        if off == 0 {
            return Self::new(len);
        }
        ScratchWin { g: Guarded::new(64 + len, false), off }
    }
    pub fn fill(&mut self, rng: &mut Rng) {
        self.g.fill_random(rng);
    }
    pub fn scratch(&mut self) -> &mut Scratch<BE> {
        let off = self.off;
        Scratch::<BE>::from_bytes(&mut self.g.bytes_mut()[off..])
    }
}

/// value classes for digit generation
#[derive(Clone, Copy, Debug, PartialEq, Eq)]
pub enum VClass {
    Uniform,
    MaxPos,
    MaxNeg,
    Alternate,
    Sparse,
    Zero,
    Headroom,
}

pub const VCLASSES: [VClass; 7] =
    [VClass::Uniform, VClass::MaxPos, VClass::MaxNeg, VClass::Alternate, VClass::Sparse, VClass::Zero, VClass::Headroom];

impl VClass {
    pub fn name(self) -> &'static str {
        match self {
            VClass::Uniform => "uniform",
            VClass::MaxPos => "maxpos",
            VClass::MaxNeg => "maxneg",
            VClass::Alternate => "alternate",
            VClass::Sparse => "sparse",
            VClass::Zero => "zero",
            VClass::Headroom => "headroom",
        }
    }
    /// one digit for radix 2^b; `headroom_bits` is used by Headroom (un-normalised digits)
    pub fn digit(self, rng: &mut Rng, b: usize, idx: usize, headroom_bits: usize) -> i64 {
        let b = b.min(63);
        match self {
            VClass::Uniform => rng.signed_bits(b),
            VClass::MaxPos => (1i64 << (b - 1)) - 1,
            VClass::MaxNeg => -(1i64 << (b - 1)),
            VClass::Alternate => {
                if idx % 2 == 0 {
                    (1i64 << (b - 1)) - 1
                } else {
                    -(1i64 << (b - 1))
                }
            }
            VClass::Sparse => {
                if rng.below(8) == 0 {
                    rng.signed_bits(b)
                } else {
                    0
                }
            }
            VClass::Zero => 0,
            VClass::Headroom => rng.signed_bits(headroom_bits.clamp(1, 63)),
        }
    }
}

pub fn hex(bytes: &[u8]) -> String {
    let mut s = String::with_capacity(bytes.len() * 2);
    for b in bytes {
        s.push_str(&format!("{b:02x}"));
    }
    s
}
