"""Per-property run configuration for ./check (flavours, shards, thresholds, evidence rule text)."""

ALL = ["quick", "thorough"]

HAL_RULE = ("cases = (HAL operation out of the 83-entry catalogue in harness/src/hal_ops.rs, backend, N, case seed); the seed fixes column counts and selected "
            "columns (1..3), limb counts 1..5 with spare capacity, radices, shifts/offsets/rotations/Galois elements, (step, offset), limb_offset, cnv_offset, "
            "masks and operand values (extreme, alternating, sparse, uniform classes). Non-trivial = N >= 2 and a non-zero result; distinct = hash of the tuple")

PROPS = {
    "C15": dict(
        level="exploration",
        runs=[dict(name="rel", flavour="rel", shards=16, timeout=2400, timeout_thorough=10800)],
        rule=("cases are (operation, operand pair, path, thread count) tuples: operands from the boundary dictionary (0, 1, 2, 2^w-1, 2^w-2, 2^(w-1), 2^(w-1)+-1, alternating/byte/nibble "
              "patterns, every single bit and complement) with probability 0.6, uniform otherwise; the shift-amount grid 0..63 and the (start,end) grid of partial preparation (561 + 153 + 45 "
              "pairs for u32/u16/u8) are enumerated completely in every run, sharded by index; circuit bootstrapping results are decrypted cell by cell with an exact i128 phase. A case is "
              "non-trivial unless both operands are zero (ops) / the range is empty (partial) / the rotation is 0 (blind). Distinct = hash of (backend, op, operands, parameters); keys differ per (seed, shard)"),
        min_evaluations=dict(quick=8000, thorough=60000),
        min_counters=dict(quick={"shift_amount_grid_0_63": 16, "partial_grid_complete_u32": 16, "cbt_cells_checked": 10000, "pipeline_cases": 150, "program_steps": 200},
                          thorough={"shift_amount_grid_0_63": 16, "partial_grid_complete_u32": 16, "cbt_cells_checked": 50000, "pipeline_cases": 800, "program_steps": 1000}),
        assumptions=["suite parameters (N=256, rank 2, base2k 13) plus three further key layouts; word operations exist for u32 only, u8/u16 coverage is encryption, preparation and bit surgery",
                     "cell tolerances calibrated on the pinned tree (worst observed 0.40 of tolerance); log_domain >= 3 bootstrapping is not generated (noise margin of the suite's parameters)"],
    ),
    "C20": dict(
        level="exploration",
        runs=[dict(name="rel", flavour="rel", shards=16, timeout=2400, timeout_thorough=10800),
              dict(name="tsan", flavour="tsan", shards=1, timeout=2400, timeout_thorough=10800, args=["--mode", "tsan-small", "--backend", "fft64avx,fft64ref"])],
        rule=("a case is one multi-thread execution (entry point, thread count, (start,len), schedule seed): its output bytes are compared with the sequential entry point's and its hook event log is "
              "checked offline (exactly one ItemStart/ItemEnd per index, one worker, disjoint intervals, nothing out of range). Thread counts 1..=32, 33, 40, 64 x 11 operations and all 528 (start,len) "
              "ranges are enumerated in every run (sharded); perturbed schedules come from seeded yield/sleep tables; shared-Module stress replays every thread's sequence alone. An interleaving is the "
              "hash of the global order of (worker,index) ItemStart events of a run with >= 2 workers"),
        min_evaluations=dict(quick=3000, thorough=20000),
        min_counters=dict(quick={"byte_comparisons": 1500, "event_logs_checked": 1500, "perturbed_runs": 500, "hook_perturbations_applied": 1, "distinct_interleavings_observed": 500, "stress_ops_compared": 800},
                          thorough={"byte_comparisons": 6000, "event_logs_checked": 6000, "perturbed_runs": 2000, "hook_perturbations_applied": 1, "distinct_interleavings_observed": 2000, "stress_ops_compared": 4000}),
        assumptions=["ThreadSanitizer sees only the interleavings executed and does not instrument the hand-written assembly kernels; the exactly-once checker is schedule independent",
                     "the tsan run is a reduced workload (thread counts 1,2,3,5,32,40 x add/sll/identity, partial preparation, one stress round)"],
    ),
    "C10": dict(
        level="exploration",
        runs=[dict(name="rel", flavour="rel", shards=16, timeout=1200, timeout_thorough=7200)],
        rule=HAL_RULE + "; each case is executed on two backends (FFT64Ref/FFT64Avx, NTT120Ref/NTT120Avx, FFT64Ref/NTT120Ref, FFT64Avx/NTT120Avx) from different garbage fills and the "
             "coefficient-domain outputs (DFT-domain results after the inverse transform; for sampling ops also the next draw of the random stream) are compared; operand widths stay inside the FFT64 exactness domain",
        min_evaluations=dict(quick=200000, thorough=8000000),
        min_counters=dict(quick={"pair:fft64ref/fft64avx": 20000, "pair:ntt120ref/ntt120avx": 20000, "pair:fft64ref/ntt120ref": 20000},
                          thorough={"pair:fft64ref/fft64avx": 500000, "pair:ntt120ref/ntt120avx": 500000, "pair:fft64ref/ntt120ref": 500000}),
        assumptions=["prepared (SvpPPol, VmpPMat, CnvPVec) and DFT-domain buffers are backend specific and are compared only through the coefficient-domain results computed from them",
                     "cross-family comparisons use operand widths inside the FFT64 exactness predicate of DESIGN §3.3"],
    ),
    "C11": dict(
        level="exploration",
        runs=[dict(name="rel", flavour="rel", shards=16, timeout=1200, timeout_thorough=7200),
              dict(name="asan-poison", flavour="asan", shards=16, timeout=1200, timeout_thorough=7200, args=["--mode", "poison", "--scale", "0.5"])],
        rule=HAL_RULE + "; every case is run twice from two independent garbage fills of the result (all columns, spare capacity) and of the scratch; the selected output bytes must agree and "
             "every other byte (other columns, limbs beyond size, read-only operands, 256-byte canary guards) must be unchanged; in the asan-poison run every byte outside the selected column is poisoned during the call",
        min_evaluations=dict(quick=200000, thorough=8000000),
        min_counters=dict(quick={"double_runs": 200000}, thorough={"double_runs": 8000000}),
        assumptions=["HAL catalogue only in this revision for the double-run oracle; core operations are covered through the scheme-level checks' own stale-output comparisons"],
    ),
    "C12": dict(
        level="exploration",
        runs=[dict(name="rel", flavour="rel", shards=16, timeout=1200, timeout_thorough=7200),
              dict(name="asan", flavour="asan", shards=16, timeout=1200, timeout_thorough=7200, args=["--scale", "0.5"]),
              dict(name="valgrind-uninit", flavour="valgrind", shards=16, timeout=1500, timeout_thorough=7200, args=["--mode", "uninit", "--scale", "0.5"]),
              dict(name="miri-uninit", flavour="miri", shards=16, timeout=1500, timeout_thorough=7200, args=["--mode", "uninit", "--scale", "0.002", "--backend", "fft64ref,ntt120ref"])],
        rule=HAL_RULE + "; restricted to the 30 operations that take scratch; the scratch is a window of exactly the bytes returned by the companion *_tmp_bytes query, 64-byte aligned and flush "
             "against the end of its allocation (first byte past it is a red zone / guard); two fills must give equal selected bytes; in the uninit runs the window is handed over uninitialised and every "
             "selected output byte is folded through a branch so that memcheck / Miri report any dependence on it",
        min_evaluations=dict(quick=60000, thorough=2000000),
        min_counters=dict(quick={"exact_windows": 60000}, thorough={"exact_windows": 2000000}),
        assumptions=["HAL (operation, tmp_bytes) pairs in this revision; core/ckks/bin-fhe pairs are exercised by the scheme-level checks with exact windows where wired (see DESIGN §C12)"],
    ),
    "C17": dict(
        level="exploration",
        runs=[dict(name="asan", flavour="asan", shards=16, timeout=1200, timeout_thorough=7200),
              dict(name="rel-canary", flavour="rel", shards=16, timeout=1200, timeout_thorough=7200),
              dict(name="valgrind", flavour="valgrind", shards=16, timeout=1500, timeout_thorough=7200, args=["--mode", "slow", "--scale", "0.5"]),
              dict(name="miri", flavour="miri", shards=16, timeout=1500, timeout_thorough=7200, args=["--scale", "0.05", "--backend", "fft64ref,ntt120ref"])],
        rule=HAL_RULE + "; each call gets an exact-size scratch window, operands with size < max_size, poisoned neighbours (ASan), canary guards (all flavours); the verdict comes from "
             "AddressSanitizer (4 backends, AVX intrinsics instrumented), valgrind memcheck (4 backends incl. the hand-written FFT16 assembly), Miri (reference backends, N <= 16, default aliasing model) and canaries",
        min_evaluations=dict(quick=200000, thorough=8000000),
        min_counters=dict(quick={"calls_under_monitor": 200000}, thorough={"calls_under_monitor": 8000000}),
        assumptions=["Miri needs the System global allocator in the harness binary because of the documented Vec<u8>/align-64 deallocation mismatch (CRITICAL-2 in poulpy-hal/src/lib.rs), which is outside C17's statement",
                     "red-zone tools miss far out-of-bounds accesses that land in another live object; operands are therefore poisoned or canaried"],
    ),
    "C07": dict(
        level="exploration",
        runs=[dict(name="rel", flavour="rel", shards=16, timeout=1200, timeout_thorough=7200)],
        rule=("cases = (operation, backend, N, operand/result limb counts, rows/cols, (step, offset) / limb_offset / cnv_offset / pairwise indices / mask, "
              "value classes of both operands); 20 operations: forward+inverse transform (three inverse variants), svp (3), vmp (2, with limb_offset), "
              "bivariate convolution (apply, pairwise, prepare_self, by_const), DFT-domain add/sub/sub_negate/add_scaled/copy/zero. Operand widths are the "
              "largest the exactness predicate of DESIGN §3.3 admits for (N, number of accumulated terms). All N coefficients are compared for N <= 256, 28 "
              "random coefficients (plus 0, 1, N/2, N-1) above. Non-trivial = neither operand class is all-zero; distinct = hash of the tuple"),
        min_evaluations=dict(quick=200000, thorough=4000000),
        assumptions=["exactness is only asserted inside the conservative magnitude predicate (FFT64: terms*n*2^(ba+bb-2)*13*log2(n) < 2^52 and |x| < 2^50; NTT120: log2(terms*n)+ba+bb-2 < 118)",
                     "vec_znx_dft_add_scaled_assign with a_scale > 0 and a.size > res.size: the documentation does not fix how many limbs take part; both readings are accepted",
                     "the coefficient-domain content of a DFT vector is read through the library's own inverse transform (itself checked by the identity cases)"],
    ),
    "C08": dict(
        level="exploration",
        runs=[
            dict(name="rel", flavour="rel", shards=16, timeout=900, timeout_thorough=5400),
            dict(name="dbg", flavour="dbg", shards=16, timeout=900, timeout_thorough=5400, args=["--scale", "0.25", "--mode", "random"]),
        ],
        rule=("cases = (operation, backend, input radix, output radix, input/output limb counts, signed bit offset, value class, column layout); each call "
              "carries N independent coefficient cases. Part 1 (seed independent): exhaustive small scope - every digit vector over [-2^b, 2^b] (out-of-range "
              "digits included) for radices <= 3 (quick) / <= 4 (thorough), sizes <= 3, every offset in -(a_bits+2b)..=(a_bits+2b), all 16 operations, same and cross radix. "
              "Part 2: random radix pairs 1..=62, sizes 1..6, offsets incl. limb multiples +-1, ten value classes (carry ripple, extremes, headroom up to 2^62 / 2^100). "
              "Part 3: integer encode/decode for every (b,k), 2<=b<=62, sizes 1..4 (grid) plus random. Non-trivial = value class is not all-zero; distinct = hash of the tuple"),
        min_evaluations=dict(quick=1000000, thorough=30000000),
        min_counters=dict(quick={"small_scope_complete": 64, "encode_grid_complete": 16}, thorough={"small_scope_complete": 64, "encode_grid_complete": 16}),
        assumptions=["un-normalised inputs bounded by 2^62 (i64 limbs) and 2^100 (i128 accumulator limbs): the library documents no headroom figure, these values are what the kernels provably handle without i64/i128 overflow",
                     "tolerance is exactly the one unit of the output's last limb stated by the property; exactness is demanded whenever res_bits >= a_bits - offset",
                     "release and debug-assertions/overflow-checks builds"],
    ),
    "C09": dict(
        level="exploration",
        runs=[dict(name="rel", flavour="rel", shards=16, timeout=900, timeout_thorough=3600)],
        rule=("cases = (operation, backend, N, rotation/Galois parameter, operand/result limb counts, column counts and selected columns); "
              "the grid part enumerates every k in [-4N,4N] and every odd g mod 2N (both signs) for N in {1..64} independent of the seed, the rest "
              "is drawn from VERIF_SEED; a case is non-trivial when N >= 2; distinct = distinct hashes of that tuple"),
        min_evaluations=dict(quick=1000000, thorough=30000000),
        min_counters=dict(quick={"exhaustive_k_and_g_for_n_le_64": 16}, thorough={"exhaustive_k_and_g_for_n_le_64": 16}),
        exhaustive_counter="exhaustive_k_and_g_for_n_le_64",
        exhaustive_note="every rotation k in [-4N,4N] and every odd Galois element mod 2N for N in {1,2,4,8,16,32,64}, all four backends",
        assumptions=["release build (wrapping i64 arithmetic); operands of arithmetic ops bounded by 2^62 so that no result depends on overflow behaviour",
                     "the oracle is the index-level ring model in harness/src/exact.rs"],
    ),
}
