"""Per-property run configuration for ./check (flavours, shards, thresholds, evidence rule text)."""

ALL = ["quick", "thorough"]

PROPS = {
    "C09": dict(
        level="exploration",
        runs=[dict(name="rel", flavour="rel", shards=16, timeout=900, timeout_thorough=3600)],
        rule=("cases = (operation, backend, N, rotation/Galois parameter, operand/result limb counts, column counts and selected columns); "
              "the grid part enumerates every k in [-4N,4N] and every odd g mod 2N (both signs) for N in {1..64} independent of the seed, the rest "
              "is drawn from VERIF_SEED; a case is non-trivial when N >= 2; distinct = distinct hashes of that tuple"),
        min_evaluations=dict(quick=40000, thorough=1000000),
        min_counters=dict(quick={"exhaustive_k_and_g_for_n_le_64": 16}, thorough={"exhaustive_k_and_g_for_n_le_64": 16}),
        exhaustive_counter="exhaustive_k_and_g_for_n_le_64",
        exhaustive_note="every rotation k in [-4N,4N] and every odd Galois element mod 2N for N in {1,2,4,8,16,32,64}, all four backends",
        assumptions=["release build (wrapping i64 arithmetic); operands of arithmetic ops bounded by 2^62 so that no result depends on overflow behaviour",
                     "the oracle is the index-level ring model in harness/src/exact.rs"],
    ),
}
