"""Per-property run configuration for ./check (flavours, shards, thresholds, evidence rule text)."""

ALL = ["quick", "thorough"]

PROPS = {
    "C07": dict(
        level="exploration",
        runs=[dict(name="rel", flavour="rel", shards=16, timeout=1200, timeout_thorough=7200)],
        rule=("cases = (operation, backend, N, operand/result limb counts, rows/cols, (step, offset) / limb_offset / cnv_offset / pairwise indices / mask, "
              "value classes of both operands); 20 operations: forward+inverse transform (three inverse variants), svp (3), vmp (2, with limb_offset), "
              "bivariate convolution (apply, pairwise, prepare_self, by_const), DFT-domain add/sub/sub_negate/add_scaled/copy/zero. Operand widths are the "
              "largest the exactness predicate of DESIGN §3.3 admits for (N, number of accumulated terms). All N coefficients are compared for N <= 256, 28 "
              "random coefficients (plus 0, 1, N/2, N-1) above. Non-trivial = neither operand class is all-zero; distinct = hash of the tuple"),
        min_evaluations=dict(quick=200000, thorough=4000000),
        assumptions=["exactness is only asserted inside the conservative magnitude predicate (FFT64: terms*n*2^(ba+bb-2)*13*log2(n) < 2^52 and |x| < 2^50; NTT120: log2(terms*n)+ba+bb-2 < 118)",
                     "vec_znx_dft_add_scaled_assign with a_scale > 0 and a.size > res.size: the documentation does not fix how many limbs take part; both readings are accepted",
                     "the coefficient-domain content of a DFT vector is read through the library's own inverse transform (itself checked by the identity cases)"],
    ),
    "C08": dict(
        level="exploration",
        runs=[
            dict(name="rel", flavour="rel", shards=16, timeout=900, timeout_thorough=5400),
            dict(name="dbg", flavour="dbg", shards=16, timeout=900, timeout_thorough=5400, args=["--scale", "0.25", "--mode", "random"]),
        ],
        rule=("cases = (operation, backend, input radix, output radix, input/output limb counts, signed bit offset, value class, column layout); each call "
              "carries N independent coefficient cases. Part 1 (seed independent): exhaustive small scope - every digit vector over [-2^b, 2^b] (out-of-range "
              "digits included) for radices <= 3 (quick) / <= 4 (thorough), sizes <= 3, every offset in -(a_bits+2b)..=(a_bits+2b), all 16 operations, same and cross radix. "
              "Part 2: random radix pairs 1..=62, sizes 1..6, offsets incl. limb multiples +-1, ten value classes (carry ripple, extremes, headroom up to 2^62 / 2^100). "
              "Part 3: integer encode/decode for every (b,k), 2<=b<=62, sizes 1..4 (grid) plus random. Non-trivial = value class is not all-zero; distinct = hash of the tuple"),
        min_evaluations=dict(quick=1000000, thorough=30000000),
        min_counters=dict(quick={"small_scope_complete": 64, "encode_grid_complete": 16}, thorough={"small_scope_complete": 64, "encode_grid_complete": 16}),
        assumptions=["un-normalised inputs bounded by 2^62 (i64 limbs) and 2^100 (i128 accumulator limbs): the library documents no headroom figure, these values are what the kernels provably handle without i64/i128 overflow",
                     "tolerance is exactly the one unit of the output's last limb stated by the property; exactness is demanded whenever res_bits >= a_bits - offset",
                     "release and debug-assertions/overflow-checks builds"],
    ),
    "C09": dict(
        level="exploration",
        runs=[dict(name="rel", flavour="rel", shards=16, timeout=900, timeout_thorough=3600)],
        rule=("cases = (operation, backend, N, rotation/Galois parameter, operand/result limb counts, column counts and selected columns); "
              "the grid part enumerates every k in [-4N,4N] and every odd g mod 2N (both signs) for N in {1..64} independent of the seed, the rest "
              "is drawn from VERIF_SEED; a case is non-trivial when N >= 2; distinct = distinct hashes of that tuple"),
        min_evaluations=dict(quick=1000000, thorough=30000000),
        min_counters=dict(quick={"exhaustive_k_and_g_for_n_le_64": 16}, thorough={"exhaustive_k_and_g_for_n_le_64": 16}),
        exhaustive_counter="exhaustive_k_and_g_for_n_le_64",
        exhaustive_note="every rotation k in [-4N,4N] and every odd Galois element mod 2N for N in {1,2,4,8,16,32,64}, all four backends",
        assumptions=["release build (wrapping i64 arithmetic); operands of arithmetic ops bounded by 2^62 so that no result depends on overflow behaviour",
                     "the oracle is the index-level ring model in harness/src/exact.rs"],
    ),
}
