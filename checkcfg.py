"""Per-property run configuration for ./check (flavours, shards, thresholds, evidence rule text)."""

ALL = ["quick", "thorough"]

HAL_RULE = ("cases = (HAL operation out of the 83-entry catalogue in harness/src/hal_ops.rs, backend, N, case seed); the seed fixes column counts and selected "
            "columns (1..3), limb counts 1..5 with spare capacity, radices, shifts/offsets/rotations/Galois elements, (step, offset), limb_offset, cnv_offset, "
            "masks and operand values (extreme, alternating, sparse, uniform classes). Non-trivial = N >= 2 and a non-zero result; distinct = hash of the tuple")

PROPS = {
    "C01": dict(
        level="exploration",
        runs=[dict(name="rel", flavour="rel", shards=16, timeout=1500, timeout_thorough=7200, skip_class="scratch_query_too_small")],
        rule=("a case is one fresh encryption (sk / zero_sk / pk / zero_pk / compressed->decompress / LWE) on one backend followed by two decryptions; all parameters (N, rank, base2k, k, limbs, "
              "secret distribution and its parameter, message class, plaintext size, noise (k, sigma, bound), decryption radix/size, seeds) are derived from the 64-bit case value; the grid part "
              "enumerates N x rank x distribution x message class. The error centre(phase(ct, s) - value(pt)) is extracted exactly (big integers, clear secret through the hook) and compared with "
              "the hard bound; the library decryption is compared with the exact phase (<= one unit of the plaintext's last limb, also across radices). Distinct = distinct (backend, mode, N, rank, "
              "base2k, k, distribution kind, message, pt size, noise, decryption layout) tuples; non-trivial = not (zero message under the zero secret)"),
        min_evaluations=dict(quick=1500000, thorough=30000000),
        min_counters=dict(quick={"grid_done": 64, "mode:sk": 1, "mode:pk": 1, "mode:zero_sk": 1, "mode:zero_pk": 1, "mode:compressed": 1, "mode:lwe": 1, "k_not_multiple_of_base2k": 1,
                                 "decrypt_cross_radix": 1, "round_trips": 1},
                          thorough={"grid_done": 64, "mode:sk": 1, "mode:pk": 1, "mode:compressed": 1, "mode:lwe": 1}),
        assumptions=["pk bound uses the maximum 1-norm of the ephemeral secret for the key's distribution (u is not observable)",
                     "worst observed on the pinned tree: fresh error 0.962 x bound, decrypt deviation exactly 1.000 unit (comparison is <=)"],
    ),
    "C02": dict(
        level="exploration",
        runs=[dict(name="rel", flavour="rel", shards=16, timeout=1500, timeout_thorough=7200, skip_class="scratch_query_too_small")],
        rule=("cases are drawn per shard from cfg.rng('c02-<backend>'): op round-robin over the 21 public GLWE ops + ggsw_rotate(+assign), sizes 1..5 shorter/equal/longer, ranks 0..3 as the API's "
              "assertions admit, base2k 1..62, rotations in +-4N and +-2^40, shifts 0..(size+2)*b, cross-radix normalisation; every op is modelled column-wise on exact big-integer torus polynomials "
              "(tolerance: one unit of the result's last limb per truncated operand, exact otherwise), the phase statement is checked exactly under a random secret when nothing is truncated, assign and "
              "out-of-place forms are compared; plus random straight-line programs of 2-12 ops over 4 registers checked after every step. Non-trivial unless operand a is all-zero; distinct = distinct "
              "(backend, op, n, radices, three sizes, three ranks, rot mod 2N, shift)"),
        min_evaluations=dict(quick=1500000, thorough=40000000),
        min_counters=dict(quick={"phase_checks": 1, "assign_vs_out_of_place": 1, "programs": 1, "program_steps": 1, "class:truncating": 1, "class:cross_radix": 1, "class:res_rank_gt_a_rank": 1},
                          thorough={"phase_checks": 1, "programs": 1, "program_steps": 1}),
        assumptions=["operand radices of rotate / negate / copy / mul_xp_minus_one equal the result radix", "mul_xp_minus_one is allowed 2 units (the truncated operand enters twice; worst measured 1.75)"],
    ),
    "C03": dict(
        level="exploration",
        runs=[dict(name="rel", flavour="rel", shards=16, timeout=1500, timeout_thorough=7200, skip_class="scratch_query_too_small")],
        rule=("contexts are drawn per shard from cfg.rng('c03-<backend>') (the Galois grid - every unit of (Z/2NZ)* for N in {8,16,32,64} - is seed-independent and sharded by index); a case is one "
              "(operation, key shape, input/output layout, input class) oracle evaluation: err = exact phase of the result under the target key minus the exact image (identity, X->X^g, partial trace, "
              "packed slots, extracted coefficient) of the exact input phase, compared with a hard gadget bound derived from gglwe_product_dft; plus the bound-free check that keys of different "
              "(dsize, dnum, radix) give the same plaintext. Ops: glwe/gglwe/ggsw/lwe key-switch, 8 automorphism forms, trace, pack, GLWEPacker, lwe<->glwe, sample extraction, key rows. "
              "Distinct = distinct (backend, n, key shape, radices, sizes, class, Galois element / skip / slots / index)"),
        min_evaluations=dict(quick=300000, thorough=10000000),
        min_counters=dict(quick={"keys": 1, "exact_scratch_calls": 1, "inputs_encrypted": 1, "galois_elements": 400, "noise_dominated_cases": 1},
                          thorough={"keys": 1, "galois_elements": 400, "noise_dominated_cases": 1}),
        assumptions=["hard bound only: noise regressions below it (factor <~ 2) are invisible by construction (no statistical tier for the key-switching family)",
                     "ring degrees 8..64; inputs normalised; worst ratio 0.44 of the bound where key noise dominates"],
    ),
    "C04": dict(
        level="exploration",
        runs=[dict(name="rel", flavour="rel", shards=16, timeout=1500, timeout_thorough=7200, skip_class="scratch_query_too_small")],
        rule=("contexts are drawn from xoshiro streams c04-<backend> keyed by (seed, shard): N in {8,16,32,64}, rank 1..3, GGSW radix inside the backend's exactness domain, dsize 1..4, dnum 1..size/dsize, "
              "k not limb-aligned, secret from 4 distributions, m2 from 8 classes; plus the seed-independent grid of all +-X^k for N=8,16. A case = one library operation (glwe/gglwe/ggsw external product "
              "x2, cmux x3, ggsw_from_gglwe, ggsw_keyswitch x2, ggsw_automorphism x2) on one operand set, judged by exact phase vs m2 * exact_phase(input) within a hard gadget bound; every produced / "
              "used gadget ciphertext is decrypted cell by cell. Non-trivial = the hard bound is below 1/16 of the torus; distinct = the full parameter tuple"),
        min_evaluations=dict(quick=300000, thorough=6000000),
        min_counters=dict(quick={"ggsw_cells_decrypted": 1, "gglwe_cells_decrypted": 1, "tsk_cells_decrypted": 1, "grid_all_monomials_n8_n16": 1, "calls_with_exact_scratch": 1},
                          thorough={"ggsw_cells_decrypted": 1, "grid_all_monomials_n8_n16": 1}),
        assumptions=["worst passing ratio <= 0.80 of the bound on the pinned tree", "ggsw_automorphism yields sigma_p(m2) under the same secret s (measured convention)"],
    ),
    "C05": dict(
        level="exploration",
        runs=[dict(name="rel", flavour="rel", shards=16, timeout=1500, timeout_thorough=7200, skip_class="scratch_query_too_small")],
        rule=("contexts from streams c05-<backend>: N in {8,16,32}, rank 1..2(3), operand radix inside the exactness domain, operand sizes 1..4 limbs with k not limb-aligned; every context is run at "
              "every cnv_offset of the grid {q*b + r} (q over every limb multiple up to (a_size+b_size)*b, r in {0,1,b/2,b-1}), into and assign forms; the oracle is the exact identity phase(res) == "
              "P_a*P_b*2^(cnv-Wa-Wb) on un-reduced integer phases (tolerance 2 units per column + the exactly computable tail of uncomputed product limbs); square vs self-multiply and accumulate forms "
              "are compared bitwise; relinearisation against the exact tensor phase with the hard gadget bound. Non-trivial = product non-zero and tolerance < 1/16 of the torus; distinct = (context, op, offset)"),
        min_evaluations=dict(quick=1000000, thorough=20000000),
        min_counters=dict(quick={"calls_with_exact_scratch": 1}, thorough={"calls_with_exact_scratch": 1}),
        assumptions=["results in the region res.base2k != operand base2k and cnv_offset < base2k go through the cross-radix normaliser with a negative offset: known finding F13"],
    ),
    "C06": dict(
        level="exploration",
        runs=[dict(name="rel", flavour="rel", shards=16, timeout=1800, timeout_thorough=7200, skip_class="scratch_query_too_small")],
        rule=("a case is one freshly encrypted object (one of 24 kinds: GLWE, LWE, GGLWE, GGSW, switching / automorphism / tensor / GGLWE-to-GGSW / LWE-related keys, public keys, blind-rotation and "
              "circuit-bootstrapping keys, compressed forms) whose every cell is decrypted exactly; statistical verdicts (two-sided variance band, mean, max <= bound, zero fraction; mask range, chi-square "
              "over 64 buckets, bit balance, lag-1 correlation) are taken per (backend, kind, shard) pool of >= 2^16 (quick) / 2^22 (thorough) error coefficients with a total false-alarm budget < 2^-40 "
              "per run; metamorphic cases rebuild the same object under single-input changes (plaintext, secret, error seed, mask seed) and compare bytes. Distinct = distinct (backend, kind, layout, sigma)"),
        min_evaluations=dict(quick=300000, thorough=5000000),
        min_counters=dict(quick={"stat_err_pools": 1000, "stat_err_samples": 1, "stat_mask_pools": 1, "stat_mask_digits": 1, "meta_objects": 1},
                          thorough={"stat_err_pools": 1000, "meta_objects": 1}),
        assumptions=["errors are pooled only where the model applies (k >= 10, so that the centred error does not wrap)", "empirical sigma / expected stayed within 0.990..1.0115 on the pinned tree"],
    ),
    "C19": dict(
        level="exploration",
        runs=[dict(name="rel", flavour="rel", shards=16, timeout=1800, timeout_thorough=7200, skip_class="scratch_query_too_small")],
        rule=("a case is one compressed object (12 kinds), decompressed and compared cell by cell with the mask regenerated from the stored seed, the regenerated error stream and - where the public API "
              "allows - the public standard encryption replayed with Source::new(stored seed) and the cloned error source; cross_backend cases are the same (kind, layout, inputs) on a second backend "
              "compared byte for byte; compress -> write_to -> read_from -> decompress must reproduce the object. Distinct = distinct (backend, kind, layout) tuples"),
        min_evaluations=dict(quick=200000, thorough=5000000),
        min_counters=dict(quick={"cells_checked": 1, "mask_columns_checked": 1, "cells_replayed_publicly": 1, "round_trips": 1, "cross_backend_compared": 1},
                          thorough={"cells_checked": 1, "cross_backend_compared": 1}),
        assumptions=["GGLWEToGGSWKeyDecompress has no Module implementation and the LWE-related compressed keys cannot call their own decompress methods (missing trait impls): these are expanded GGLWE by GGLWE"],
    ),
    "C16": dict(
        level="exploration",
        runs=[dict(name="rel", flavour="rel", shards=16, timeout=1500, timeout_thorough=7200)],
        rule=("a case is one operation of a random straight-line CKKS program (10-28 steps over 4 registers, 69 operation/form names, f64 and f128 plaintext element types, four backends) "
              "executed on the library and judged against a shadow evaluation on complex double-double slot vectors with a tracked (statistical, worst-case) error bound: value, metadata "
              "invariants, error paths (budget exhausted, missing key, impossible alignment, too few limbs must give the documented CKKSCompositionError variant), panic monitor. The case key is "
              "backend | element type | N | base2k | form | operand metadata (log_delta.log_budget.size.max_k of every operand) | expected outcome; non-trivial unless a fresh encryption of the zero vector"),
        min_evaluations=dict(quick=1000000, thorough=20000000),
        min_counters=dict(quick={"programs": 1000, "steps_ok": 100000, "error_paths_exercised": 100, "error_path:InsufficientHomomorphicCapacity": 1, "error_path:MultiplicationPrecisionUnderflow": 1,
                                 "error_path:MissingAutomorphismKey": 1, "error_path:PlaintextAlignmentImpossible": 1, "error_path:LimbReallocationShrinksBelowMetadata": 1, "results_not_compacted": 1},
                          thorough={"programs": 20000, "steps_ok": 2000000, "error_paths_exercised": 1000}),
        assumptions=["a step violates when the observed slot error exceeds 16 x the statistical part + 2 x the worst-case part of the tracked bound (worst ratio observed on the pinned tree: 0.57)",
                     "not covered: dsize > 1 keys, rank > 1, the dot_product_pt_* functions, negative rotation indices with keys",
                     "div_pow2_into (log_delta + bits) and div_pow2_assign (log_delta unchanged) differ by design (both pinned by the crate's own tests) and are accepted"],
    ),
    "C13": dict(
        level="exploration",   # structural part exhaustive
        runs=[dict(name="rel", flavour="rel", shards=16, timeout=1200, timeout_thorough=7200)],
        rule=("cases = (circuit, output bit, phase, shard | edge): 290 compiled tables (9 circuits x 32 bits + slt + sltu). Structural clauses: one walk per table "
              "with a definedness shadow per buffer slot re-stating eval_level (control flow is input independent, so the walk is complete). Functional clause: the real "
              "tables run bit-sliced (256 lanes) under the evaluator semantics and are compared with the Rust word operation; bits whose variable set (table selectors "
              "union mathematical support) has <= 31 (quick) / 40 (thorough) variables are enumerated completely (x_bits[].exhaustive; exh_inputs == exh_inputs_expected), "
              "the others get a boundary dictionary (carry/borrow chains of every start and length, shift amounts 0..63, sign boundaries, equal prefixes, single bits), one "
              "constructed input per BDD edge with 256 completions (path confirmed by a scalar trace over the original nodes) and 2^30 / 2^35 structured random pairs per bit. "
              "Non-trivial = support >= 2; distinct = hash of the tuple"),
        min_evaluations=dict(quick=17000, thorough=17000),
        min_counters=dict(quick={"structural_walk_complete": 16, "struct_tables_walked": 290, "struct_reads_checked": 17000, "bits_exhaustive": 236, "exh_inputs": 11000000000,
                                 "edges_covered": 15356, "edge_path_confirmations": 3900000, "dict_inputs_per_bit": 250000, "random_inputs_per_sampled_bit": 1073741824},
                          thorough={"structural_walk_complete": 16, "struct_tables_walked": 290, "bits_exhaustive": 264, "edges_covered": 15356}),
        exhaustive_counter="structural_walk_complete",
        exhaustive_note="structural clauses (index ranges, stale reads, table length, last-chunk shape) for all 290 tables; functional clause exhaustive for the bits listed with exhaustive=true in x_bits",
        assumptions=["the link between the table semantics restated here and the homomorphic evaluator is closed by C15",
                     "slt/sltu have output_size 1: bits 1..31 are zeroed by execute_bdd_circuit, not by a table",
                     "functional clause for add/sub bits >= 15 (quick) / >= 20 (thorough) and slt/sltu bit 0 is sampled, not decided: the 2^64 quantifier is out of reach for runtime monitoring"],
    ),
    "C14": dict(
        level="exploration",
        runs=[dict(name="rel", flavour="rel", shards=16, timeout=1500, timeout_thorough=7200)],
        rule=("clear path: case = (backend, N, ext, len, base2k, k_lut, k_msg) table, N in {8..256(512)}, ext in {1,2,4,8}, every power-of-two len <= N; after set every "
              "coefficient is compared by value with the index model, then lookup_table_rotate(k) is called for every k in [0,2D) and -k plus out-of-domain indices and all "
              "digits of all limbs are compared after each call. Blind path: case = one CGGI execution (backend, N, ext, base2k, n_lwe, key distribution, p, direction, "
              "message, crafted, key seed): every message of Z_{2^(p+1)} for p=1..5, both directions, per key; exact phase of the result compared on all coefficients with "
              "the model table rotated by the harness's own modulus switch; noise floor 64 sigma_pred. Non-trivial = D >= 4; distinct = hash of the tuple"),
        min_evaluations=dict(quick=2000000, thorough=10000000),
        min_counters=dict(quick={"clear_every_k_complete": 64, "clear_rotations_checked": 2000000, "blind_keys": 200, "blind_ext1": 1, "blind_ext2": 1, "blind_ext4": 1, "blind_ext8": 1,
                                 "blind_left": 1, "blind_right": 1, "blind_crafted_lwe": 1, "ok:blind_execute": 30000, "modswitch_cases": 1000, "clear_set_on_used_table": 100},
                          thorough={"clear_every_k_complete": 64, "blind_keys": 2000, "ok:blind_execute": 300000, "modswitch_cases": 1000, "clear_set_on_used_table": 100}),
        assumptions=["LWE secret binary (block / fixed weight / probability / zero), GLWE secret ternary, rank 1, k_brk = (dnum+1)*base2k as in the repository's test",
                     "index tolerance: leading-limb vs full-precision rounding when base2k > log2(2D); round/truncate of full value or leading limbs otherwise",
                     "NTT120 backends run the same generic code with the FFT64 parameter sets (the repository does not instantiate bin-fhe on them)"],
    ),
    "C18": dict(
        level="fault_enumeration",
        runs=[dict(name="rel", flavour="rel", shards=16, timeout=1500, timeout_thorough=7200),
              dict(name="dbg", flavour="dbg", shards=16, timeout=1500, timeout_thorough=7200, tiers=["quick"]),
              dict(name="asan-touch", flavour="asan", shards=16, timeout=1500, timeout_thorough=7200, args=["--mode", "asan-touch"], tiers=["quick"])],
        rule=("cases = (type, shape, source kind, receiver kind, fault) over the 30 serialisable types of poulpy-hal, poulpy-core (standard and compressed) and poulpy-bin-fhe, "
              "where fault is one of: none (round trip), truncate@t for every prefix length t (all t for streams <= 6000/20000 bytes, header bytes + boundaries + 24 interior "
              "points per region otherwise), or (header field, injected value, family) over the boundary dictionary {0,1,2,2^31,2^32-1,2^32,2^61,2^61+1,2^62,2^63,2^64-1,v-1,v+1, "
              "wrap-to-same-length}; shapes: 2-3 fixed per type (seed-independent) + 6 (quick) / 250 (thorough) drawn from VERIF_SEED; receivers same/exact/larger/shrunk/smaller; "
              "a case is non-trivial when N >= 2; distinct = distinct hashes of that tuple (one per truncation sweep)"),
        min_evaluations=dict(quick=1000000, thorough=40000000),
        min_counters=dict(quick={"types_covered": 30, "roundtrip_equal": 1, "roundtrip_partialeq_true": 1, "trailing_bytes_left_unread": 1, "truncation_points": 500000,
                                 "truncation_full_sweeps": 1, "mutations_rejected": 1, "mutations_accepted_consistent": 1, "insufficient_receiver_rejected": 1},
                          thorough={"types_covered": 30, "truncation_points": 30000000, "mutations_rejected": 1}),
        assumptions=["receivers whose fields are pub(crate) are observed through their own re-serialisation, parsed by an independent model of the wire format",
                     "attacker-sized allocations run in child processes under RLIMIT_AS; a receiver with broken invariants is only touched in the asan-touch children"],
    ),
    "C15": dict(
        level="exploration",
        runs=[dict(name="rel", flavour="rel", shards=16, timeout=2400, timeout_thorough=10800)],
        rule=("cases are (operation, operand pair, path, thread count) tuples: operands from the boundary dictionary (0, 1, 2, 2^w-1, 2^w-2, 2^(w-1), 2^(w-1)+-1, alternating/byte/nibble "
              "patterns, every single bit and complement) with probability 0.6, uniform otherwise; the shift-amount grid 0..63 and the (start,end) grid of partial preparation (561 + 153 + 45 "
              "pairs for u32/u16/u8) are enumerated completely in every run, sharded by index; circuit bootstrapping results are decrypted cell by cell with an exact i128 phase. A case is "
              "non-trivial unless both operands are zero (ops) / the range is empty (partial) / the rotation is 0 (blind). Distinct = hash of (backend, op, operands, parameters); keys differ per (seed, shard)"),
        min_evaluations=dict(quick=8000, thorough=60000),
        min_counters=dict(quick={"shift_amount_grid_0_63": 16, "partial_grid_complete_u32": 16, "cbt_cells_checked": 10000, "pipeline_cases": 150, "program_steps": 200},
                          thorough={"shift_amount_grid_0_63": 16, "partial_grid_complete_u32": 16, "cbt_cells_checked": 50000, "pipeline_cases": 800, "program_steps": 1000}),
        assumptions=["suite parameters (N=256, rank 2, base2k 13) plus three further key layouts; word operations exist for u32 only, u8/u16 coverage is encryption, preparation and bit surgery",
                     "cell tolerances calibrated on the pinned tree (worst observed 0.40 of tolerance); log_domain >= 3 bootstrapping is not generated (noise margin of the suite's parameters)"],
    ),
    "C20": dict(
        level="exploration",
        runs=[dict(name="rel", flavour="rel", shards=16, timeout=2400, timeout_thorough=10800),
              dict(name="tsan", flavour="tsan", shards=1, timeout=2400, timeout_thorough=10800, args=["--mode", "tsan-small", "--backend", "fft64avx,fft64ref"])],
        rule=("a case is one multi-thread execution (entry point, thread count, (start,len), schedule seed): its output bytes are compared with the sequential entry point's and its hook event log is "
              "checked offline (exactly one ItemStart/ItemEnd per index, one worker, disjoint intervals, nothing out of range). Thread counts 1..=32, 33, 40, 64 x 11 operations and all 528 (start,len) "
              "ranges are enumerated in every run (sharded); perturbed schedules come from seeded yield/sleep tables; shared-Module stress replays every thread's sequence alone. An interleaving is the "
              "hash of the global order of (worker,index) ItemStart events of a run with >= 2 workers"),
        min_evaluations=dict(quick=3000, thorough=20000),
        min_counters=dict(quick={"byte_comparisons": 1500, "event_logs_checked": 1500, "perturbed_runs": 500, "hook_perturbations_applied": 1, "distinct_interleavings_observed": 500, "stress_ops_compared": 800},
                          thorough={"byte_comparisons": 6000, "event_logs_checked": 6000, "perturbed_runs": 2000, "hook_perturbations_applied": 1, "distinct_interleavings_observed": 2000, "stress_ops_compared": 4000}),
        assumptions=["ThreadSanitizer sees only the interleavings executed and does not instrument the hand-written assembly kernels; the exactly-once checker is schedule independent",
                     "the tsan run is a reduced workload (thread counts 1,2,3,5,32,40 x add/sll/identity, partial preparation, one stress round)"],
    ),
    "C10": dict(
        level="exploration",
        runs=[dict(name="rel", flavour="rel", shards=16, timeout=1200, timeout_thorough=7200)],
        rule=HAL_RULE + "; each case is executed on two backends (FFT64Ref/FFT64Avx, NTT120Ref/NTT120Avx, FFT64Ref/NTT120Ref, FFT64Avx/NTT120Avx) from different garbage fills and the "
             "coefficient-domain outputs (DFT-domain results after the inverse transform; for sampling ops also the next draw of the random stream) are compared; operand widths stay inside the FFT64 exactness domain",
        min_evaluations=dict(quick=200000, thorough=8000000),
        min_counters=dict(quick={"pair:fft64ref/fft64avx": 20000, "pair:ntt120ref/ntt120avx": 20000, "pair:fft64ref/ntt120ref": 20000},
                          thorough={"pair:fft64ref/fft64avx": 500000, "pair:ntt120ref/ntt120avx": 500000, "pair:fft64ref/ntt120ref": 500000}),
        assumptions=["prepared (SvpPPol, VmpPMat, CnvPVec) and DFT-domain buffers are backend specific and are compared only through the coefficient-domain results computed from them",
                     "cross-family comparisons use operand widths inside the FFT64 exactness predicate of DESIGN §3.3"],
    ),
    "C11": dict(
        level="exploration",
        runs=[dict(name="rel", flavour="rel", shards=16, timeout=1200, timeout_thorough=7200),
              dict(name="asan-poison", flavour="asan", shards=16, timeout=1200, timeout_thorough=7200, args=["--mode", "poison", "--scale", "0.5"])],
        rule=HAL_RULE + "; every case is run twice from two independent garbage fills of the result (all columns, spare capacity) and of the scratch; the selected output bytes must agree and "
             "every other byte (other columns, limbs beyond size, read-only operands, 256-byte canary guards) must be unchanged; in the asan-poison run every byte outside the selected column is poisoned during the call",
        min_evaluations=dict(quick=200000, thorough=8000000),
        min_counters=dict(quick={"double_runs": 200000}, thorough={"double_runs": 8000000}),
        assumptions=["HAL catalogue only in this revision for the double-run oracle; core operations are covered through the scheme-level checks' own stale-output comparisons"],
    ),
    "C12": dict(
        level="exploration",
        runs=[dict(name="rel", flavour="rel", shards=16, timeout=1200, timeout_thorough=7200),
              dict(name="asan", flavour="asan", shards=16, timeout=1200, timeout_thorough=7200, args=["--scale", "0.5"]),
              dict(name="valgrind-uninit", flavour="valgrind", shards=16, timeout=1500, timeout_thorough=7200, args=["--mode", "uninit", "--scale", "0.5"]),
              dict(name="miri-uninit", flavour="miri", shards=16, timeout=1500, timeout_thorough=7200, args=["--mode", "uninit", "--scale", "0.002", "--backend", "fft64ref,ntt120ref"]),
              dict(name="core-c01", flavour="rel", cmd="c01", shards=16, timeout=1500, timeout_thorough=7200, args=["--scale", "0.3"], only_class="scratch_query_too_small"),
              dict(name="core-c03", flavour="rel", cmd="c03", shards=16, timeout=1500, timeout_thorough=7200, args=["--scale", "0.5"], only_class="scratch_query_too_small"),
              dict(name="core-c04", flavour="rel", cmd="c04", shards=16, timeout=1500, timeout_thorough=7200, args=["--scale", "0.3"], only_class="scratch_query_too_small"),
              dict(name="core-c05", flavour="rel", cmd="c05", shards=16, timeout=1500, timeout_thorough=7200, args=["--scale", "0.3"], only_class="scratch_query_too_small")],
        rule=HAL_RULE + "; [scheme layers] the functional monitors of C01-C05 give every poulpy-core call an exact-size scratch window as well: their scratch-class observations are collected by the 'core-*' runs; [HAL] restricted to the 30 operations that take scratch; the scratch is a window of exactly the bytes returned by the companion *_tmp_bytes query, 64-byte aligned and flush "
             "against the end of its allocation (first byte past it is a red zone / guard); two fills must give equal selected bytes; in the uninit runs the window is handed over uninitialised and every "
             "selected output byte is folded through a branch so that memcheck / Miri report any dependence on it",
        min_evaluations=dict(quick=60000, thorough=2000000),
        min_counters=dict(quick={"exact_windows": 60000}, thorough={"exact_windows": 2000000}),
        assumptions=["HAL (operation, tmp_bytes) pairs in this revision; core/ckks/bin-fhe pairs are exercised by the scheme-level checks with exact windows where wired (see DESIGN §C12)"],
    ),
    "C17": dict(
        level="exploration",
        runs=[dict(name="asan", flavour="asan", shards=16, timeout=1200, timeout_thorough=7200),
              dict(name="rel-canary", flavour="rel", shards=16, timeout=1200, timeout_thorough=7200),
              dict(name="valgrind", flavour="valgrind", shards=16, timeout=1500, timeout_thorough=7200, args=["--mode", "slow", "--scale", "0.5"]),
              dict(name="miri", flavour="miri", shards=16, timeout=1500, timeout_thorough=7200, args=["--scale", "0.05", "--backend", "fft64ref,ntt120ref"])],
        rule=HAL_RULE + "; each call gets an exact-size scratch window, operands with size < max_size, poisoned neighbours (ASan), canary guards (all flavours); the verdict comes from "
             "AddressSanitizer (4 backends, AVX intrinsics instrumented), valgrind memcheck (4 backends incl. the hand-written FFT16 assembly), Miri (reference backends, N <= 16, default aliasing model) and canaries",
        min_evaluations=dict(quick=200000, thorough=8000000),
        min_counters=dict(quick={"calls_under_monitor": 200000}, thorough={"calls_under_monitor": 8000000}),
        assumptions=["Miri needs the System global allocator in the harness binary because of the documented Vec<u8>/align-64 deallocation mismatch (CRITICAL-2 in poulpy-hal/src/lib.rs), which is outside C17's statement",
                     "red-zone tools miss far out-of-bounds accesses that land in another live object; operands are therefore poisoned or canaried"],
    ),
    "C07": dict(
        level="exploration",
        runs=[dict(name="rel", flavour="rel", shards=16, timeout=1200, timeout_thorough=7200)],
        rule=("cases = (operation, backend, N, operand/result limb counts, rows/cols, (step, offset) / limb_offset / cnv_offset / pairwise indices / mask, "
              "value classes of both operands); 20 operations: forward+inverse transform (three inverse variants), svp (3), vmp (2, with limb_offset), "
              "bivariate convolution (apply, pairwise, prepare_self, by_const), DFT-domain add/sub/sub_negate/add_scaled/copy/zero. Operand widths are the "
              "largest the exactness predicate of DESIGN §3.3 admits for (N, number of accumulated terms). All N coefficients are compared for N <= 256, 28 "
              "random coefficients (plus 0, 1, N/2, N-1) above. Non-trivial = neither operand class is all-zero; distinct = hash of the tuple"),
        min_evaluations=dict(quick=200000, thorough=4000000),
        assumptions=["exactness is only asserted inside the conservative magnitude predicate (FFT64: terms*n*2^(ba+bb-2)*13*log2(n) < 2^52 and |x| < 2^50; NTT120: log2(terms*n)+ba+bb-2 < 118)",
                     "vec_znx_dft_add_scaled_assign with a_scale > 0 and a.size > res.size: the documentation does not fix how many limbs take part; both readings are accepted",
                     "the coefficient-domain content of a DFT vector is read through the library's own inverse transform (itself checked by the identity cases)"],
    ),
    "C08": dict(
        level="exploration",
        runs=[
            dict(name="rel", flavour="rel", shards=16, timeout=900, timeout_thorough=5400),
            dict(name="dbg", flavour="dbg", shards=16, timeout=900, timeout_thorough=5400, args=["--scale", "0.25", "--mode", "random"]),
        ],
        rule=("cases = (operation, backend, input radix, output radix, input/output limb counts, signed bit offset, value class, column layout); each call "
              "carries N independent coefficient cases. Part 1 (seed independent): exhaustive small scope - every digit vector over [-2^b, 2^b] (out-of-range "
              "digits included) for radices <= 3 (quick) / <= 4 (thorough), sizes <= 3, every offset in -(a_bits+2b)..=(a_bits+2b), all 16 operations, same and cross radix. "
              "Part 2: random radix pairs 1..=62, sizes 1..6, offsets incl. limb multiples +-1, ten value classes (carry ripple, extremes, headroom up to 2^62 / 2^100). "
              "Part 3: integer encode/decode for every (b,k), 2<=b<=62, sizes 1..4 (grid) plus random. Non-trivial = value class is not all-zero; distinct = hash of the tuple"),
        min_evaluations=dict(quick=1000000, thorough=30000000),
        min_counters=dict(quick={"small_scope_complete": 64, "encode_grid_complete": 16}, thorough={"small_scope_complete": 64, "encode_grid_complete": 16}),
        assumptions=["un-normalised inputs bounded by 2^62 (i64 limbs) and 2^100 (i128 accumulator limbs): the library documents no headroom figure, these values are what the kernels provably handle without i64/i128 overflow",
                     "tolerance is exactly the one unit of the output's last limb stated by the property; exactness is demanded whenever res_bits >= a_bits - offset",
                     "release and debug-assertions/overflow-checks builds"],
    ),
    "C09": dict(
        level="exploration",
        runs=[dict(name="rel", flavour="rel", shards=16, timeout=900, timeout_thorough=3600)],
        rule=("cases = (operation, backend, N, rotation/Galois parameter, operand/result limb counts, column counts and selected columns); "
              "the grid part enumerates every k in [-4N,4N] and every odd g mod 2N (both signs) for N in {1..64} independent of the seed, the rest "
              "is drawn from VERIF_SEED; a case is non-trivial when N >= 2; distinct = distinct hashes of that tuple"),
        min_evaluations=dict(quick=1000000, thorough=30000000),
        min_counters=dict(quick={"exhaustive_k_and_g_for_n_le_64": 16}, thorough={"exhaustive_k_and_g_for_n_le_64": 16}),
        exhaustive_counter="exhaustive_k_and_g_for_n_le_64",
        exhaustive_note="every rotation k in [-4N,4N] and every odd Galois element mod 2N for N in {1,2,4,8,16,32,64}, all four backends",
        assumptions=["release build (wrapping i64 arithmetic); operands of arithmetic ops bounded by 2^62 so that no result depends on overflow behaviour",
                     "the oracle is the index-level ring model in harness/src/exact.rs"],
    ),
}
