#!/usr/bin/env python3
"""Regenerates MANIFEST.json from the table below (kept next to checkcfg.py so the two stay in step)."""
import json, os, subprocess
ROOT = os.path.dirname(os.path.abspath(__file__))

CLAIMED = {
 # id: (category, technique, level text, level note, design ref)
 "C10": ("exploration", "runtime differential monitor: identical seeded cases executed on pairs of backends, coefficient-domain outputs compared byte for byte",
         "The 83-operation HAL catalogue is replayed on FFT64Ref/FFT64Avx, NTT120Ref/NTT120Avx and on the two families against each other (operand widths inside the "
         "FFT64 exactness domain), including N = 1, 2, 4 (SIMD tails), extreme digits, cross-radix normalisation and the random-stream consumption of the sampling ops. "
         "This is the only place where the AVX crates are built and exercised at all. Held on the executions observed; scheme-level pipelines are compared in C19/C01.",
         "Trusted: determinism of the case generator; DFT-domain buffers are never compared directly. Known finding F24 (cross-family rounding of cross-radix big normalisation) is listed, not suppressed elsewhere.",
         "DESIGN.md §C10"),
 "C11": ("exploration", "runtime metamorphic monitor: double run from two garbage fills + whole-buffer diff; ASan with every unselected byte poisoned",
         "Each operation of two catalogues (84 HAL operations; 104 poulpy-core / poulpy-ckks / bin-fhe (cmux, cswap) operations with keys and operands generated per case) is executed twice on identical inputs but different previous contents of the result buffer (all columns, spare capacity) and scratch; any difference in the "
         "selected output, any change outside it (other columns, limbs beyond size, read-only operands, canary guards) or any access to a poisoned byte is a violation. Oracle-free, so it "
         "also sees stale limbs that every backend leaves equally stale. Held on the executions observed.",
         "Trusted: the catalogues' notion of 'selected output' (HAL: column res_col, limbs 0..size; core: the whole destination object). Not in the core catalogue: compressed key-material encryption, bin-fhe beyond CMux (covered by C13-C15/C20), CKKS plaintext/assign forms (C16).",
         "DESIGN.md §C11"),
 "C12": ("exploration", "runtime monitor: exact-size scratch windows with red zone + two fills; valgrind memcheck and Miri with uninitialised windows",
         "Every scratch-taking operation of the two catalogues (30 HAL, 92 poulpy-core / poulpy-ckks / bin-fhe; plus the exact-window calls made by the functional monitors C01-C05, whose scratch-class observations are routed here) is called with a window of exactly the bytes its *_tmp_bytes query returns, placed flush against the end of its allocation: a panic for lack of "
         "space, a guard/red-zone hit (ASan), a result that depends on the fill, or a use of uninitialised scratch reaching the output (memcheck on four backends, Miri on the reference ones) "
         "is a violation. Held on the executions observed.",
         "Trusted: ASan/memcheck/Miri. bin-fhe (operation, query) pairs are exercised with exact windows inside C14/C15/C20. Known findings F23/F23t (swapped arguments in one delegate) are reported as KNOWN-FINDING.",
         "DESIGN.md §C12"),
 "C13": ("exploration", "runtime monitor: instrumented walk of the compiled tables (definedness shadow) + bit-sliced execution of the real tables vs Rust word semantics; exhaustive over small supports",
         "Structural clauses (node indices in range, no read of a slot the previous level left undefined, table length a multiple of the state width, last chunk shape, selector range) are decided "
         "completely by one instrumented walk per table (control flow is input independent). The functional clause runs the real node tables (hook) under the evaluator semantics over 256-lane "
         "bit-slices: exhaustive for the 236 (quick) / 264 (thorough) of 290 output bits whose variable set has <= 31 / 40 variables; for the rest (add/sub high bits, slt/sltu) a boundary dictionary, "
         "one constructed input per BDD edge (15 356 of 15 356 edges, path confirmed) and 2^30 / 2^35 structured random pairs per bit. The 2^64 quantifier is NOT decided for those bits: that needs a "
         "symbolic method, which is outside this family.",
         "Trusted: the restatement of eval_level in c13.rs (its link to the real evaluator is closed by C15 running the same tables homomorphically).",
         "DESIGN.md §C13"),
 "C14": ("exploration", "runtime monitor: index-level model of the look-up table for every rotation index (fresh and re-used tables); direct model of mod_switch_2n for every LWE radix; exact-phase decryption of real blind rotations vs the harness' own modulus switch",
         "Clear path: after set, lookup_table_rotate(k) is called for EVERY k in [0, 2N*ext) (and negative / out-of-domain indices) and every digit of every limb is compared with an index-level "
         "model (negacyclic sign, half-step drift, extension interleaving) on four backends. Blind path: real CGGI executions (standard, block-binary, extended; every message of Z_{2^(p+1)}, p=1..5, "
         "both directions, extension factors 1,2,4,8, crafted boundary LWEs) decrypted with an exact phase and compared on all coefficients with the model table rotated by the harness' own mod-switch. "
         "Held on the executions observed.",
         "Trusted: noise floor 64 sigma_pred (worst observed 7.7); rank 1, binary LWE secrets as in the repository's tests.",
         "DESIGN.md §C14"),
 "C16": ("exploration", "runtime monitor: shadow complex evaluation of random CKKS programs with tracked error bound, metadata invariants, error-path and panic monitors",
         "Random straight-line programs over 69 operation forms run on the real library (f64 and f128 plaintexts, four backends); after every step the decrypted slots are compared with a shadow "
         "evaluation in complex double-double arithmetic within a tracked error bound, the metadata algebra is checked (log_delta + log_budget <= max_k, budget never grows, documented log_delta rule), "
         "steps that need more budget / a missing key / an impossible alignment must return the documented error variant, and any panic is a violation. Held on the programs observed.",
         "Trusted: the shadow model derived from m = t * 2^log_budget; tolerance 16 s + 2 h calibrated on the pinned tree (worst ratio 0.57).",
         "DESIGN.md §C16"),
 "C18": ("fault_enumeration", "runtime fault enumeration over byte streams: every truncation point and every header field x boundary dictionary, receiver observed through an independent wire-format model; ASan children",
         "For the 30 serialisable types: round trip into receivers of equal / larger / smaller capacity, every truncation point of the stream, every header field replaced by each value of a boundary "
         "dictionary (incl. products that wrap to the same length), with the receiver's invariants (size <= max_size, dims x 8 <= buffer, seed count = cells, metadata unchanged on Err) checked in "
         "128-bit arithmetic after either outcome, attacker-sized allocations isolated in rlimited children, and receivers with broken invariants touched only in ASan children. The enumeration is "
         "complete over truncation points and the dictionary for the shapes drawn; shapes are sampled.",
         "Trusted: the wire-format model in c18_grammar.rs (cross-checked against public fields where they exist); release + debug-assertions + ASan builds.",
         "DESIGN.md §C18"),
 "C15": ("exploration", "runtime monitor: homomorphic execution vs plain Rust word semantics; exact-phase decryption of every GGSW cell; enumerated grids",
         "All 11 word circuits are executed homomorphically (direct, multi-thread and packed->bootstrap->op paths) on boundary and random words incl. every shift amount 0..63; bit "
         "extraction, byte/half-word splice, sign extension, cswap, blind selection/retrieval/rotation are checked on ALL coefficients; circuit bootstrapping results (constant and exponent mode) "
         "are decrypted cell by cell with an exact i128 phase; every (start,end) of partial preparation (u8/u16/u32) goes through three entry points; 2-6 step programs are chained through re-bootstrapping. "
         "Held on the executions observed.",
         "Trusted: the clear secrets read through the verif-hooks accessor; tolerances calibrated on the pinned tree (worst 0.40 of tolerance); suite parameters plus three further key layouts.",
         "DESIGN.md §C15"),
 "C20": ("exploration", "runtime monitor: byte comparison across thread counts, offline exactly-once checker over a hook event log, perturbed schedules, shared-Module stress, ThreadSanitizer",
         "Every multi-thread entry point is compared byte for byte with its sequential counterpart for thread counts 1..=32, 33, 40, 64 using exact-size scratch windows; the hook event log of each "
         "run is checked offline (each index started and ended exactly once on one worker, nothing out of range); seeded yield/sleep tables and oversubscription perturb the schedules and the number of "
         "distinct interleavings observed is reported; T threads share one Module/keys/ciphertexts, run mixed operation sequences (incl. circuit bootstrapping with a different result layout / encoding per thread) and are replayed alone; a reduced workload runs under ThreadSanitizer. Held on the schedules observed.",
         "Trusted: the hook call sites (add-only, no-op without callback); TSan does not see the assembly kernels; Module's unsafe Sync impl is exercised, not proved.",
         "DESIGN.md §C20"),
 "C17": ("exploration", "sanitizers: AddressSanitizer (poisoned neighbours), valgrind memcheck, Miri, canary guards over the HAL and core catalogues with aligned and unaligned scratch windows; scratch-carving and deserialise-then-touch histories",
         "The HAL catalogue (84 operations, N from 1, odd limb counts, 1..3 columns, size < capacity) and the core catalogue (104 poulpy-core / poulpy-ckks / bin-fhe (cmux, cswap) operations) run with exact scratch windows carved from guarded "
         "allocations (one window in four starts at an arbitrary, not 64-byte aligned address) under ASan on all four backends, under memcheck on all four (covers the global_asm FFT16 kernels) and under Miri on the "
         "reference backends; random sequences of public take_* calls on windows with arbitrary start addresses are checked view by view (inside the window, disjoint, aligned for the element type); every receiver "
         "accepted by read_from (valid and header-corrupted streams) is touched limb by limb under ASan; any report, canary change or bounds panic is a violation. "
         "A clean run is evidence for the calls observed, not memory safety.",
         "Trusted: the sanitizers; Miri runs with the System allocator (documented CRITICAL-2 layout mismatch is outside the property).",
         "DESIGN.md §C17"),
 "C01": ("exploration", "runtime monitor: exact big-integer phase of every fresh ciphertext vs hard error bound; library decryption vs exact phase",
         "Fresh LWE / GLWE ciphertexts (secret-key, zero, public-key, seed-compressed) are produced on four backends over a grid of (N, rank, radix, k not a multiple of the radix, seven secret "
         "distributions, message classes) plus random cases; the error centre(phase - message) is extracted exactly with the clear secret and compared with the property's hard bound; the library's "
         "decryption is compared with the exact phase (one unit, also into a different radix / precision). Held on the executions observed.",
         "Trusted: clear secrets through the verif-hooks accessor; pk bound uses the maximal 1-norm of the ephemeral secret.", "DESIGN.md §C01"),
 "C02": ("exploration", "runtime monitor: column-wise exact torus model of every noise-free GLWE/GGSW op; random straight-line programs with the model executed alongside",
         "All 21 public linear GLWE operations (+ GGSW rotate) are executed on random limb vectors over sizes 1..5, ranks 0..3 mixed, radices 1..62, rotations in all of Z, shifts beyond the precision, "
         "cross-radix normalisation, assign and out-of-place forms, and compared column by column with an exact big-integer model (exactly when nothing is truncated; the phase statement is also "
         "checked under a random secret); 2-12 step programs are checked after every step. Held on the executions observed.",
         "Trusted: the exact model in c02.rs / exact.rs.", "DESIGN.md §C02"),
 "C03": ("exploration", "runtime monitor: exact phase under the target key vs exact plaintext image, hard gadget bound, gadget-shape independence; every Galois element for N <= 64",
         "Key-switch (GLWE/GGLWE/GGSW/LWE), the eight automorphism forms, trace at every level, packing, LWE<->GLWE conversion and sample extraction are executed with keys of random gadget shape "
         "(ranks 1..3, dsize 1..4, dnum, three-way radix mismatch) and judged by exact big-integer phases against the exact image of the input; composed automorphism keys (glwe_automorphism_key_automorphism) are checked on their recorded Galois element, every row and their use; the Galois grid is complete for N in {8,16,32,64}. "
         "Only a hard bound is used: noise regressions below it are invisible.",
         "Trusted: the bound derivation from gglwe_product_dft (worst 0.44 of the bound where key noise dominates).", "DESIGN.md §C03"),
 "C04": ("exploration", "runtime monitor: exact phase vs exact negacyclic product, every GGSW / GGLWE cell decrypted",
         "External products (GLWE/GGLWE/GGSW x GGSW, into and assign), the three cmux forms, GGSW from GGLWE, GGSW key-switch and automorphism run with random gadget shapes and radix mismatches; results "
         "are compared with m2 * exact_phase(input) within a hard gadget bound and every cell of every gadget ciphertext produced or used is decrypted exactly; all monomials +-X^k are enumerated for N = 8, 16.",
         "Trusted: bound derivation (worst passing ratio 0.80).", "DESIGN.md §C04"),
 "C05": ("exploration", "runtime monitor: exact integer identity phase(res) = P_a P_b 2^(cnv - Wa - Wb) at every convolution offset; bitwise square/accumulate comparisons",
         "glwe_mul_plain, glwe_mul_const, tensor_apply, square, accumulate, tensor decryption and relinearisation are run at EVERY cnv_offset of the grid (every limb multiple and intra-limb remainders "
         "1, b/2, b-1) with operands whose top limb is partially used, result radix = and != operand radix, and compared exactly on un-reduced integer phases. Known finding F13c covers the cross-radix "
         "negative-offset region.",
         "Trusted: the exact model; deterministic operations, so no statistical tolerance.", "DESIGN.md §C05"),
 "C06": ("exploration", "runtime statistical monitor: exactly extracted errors and raw masks, two-sided acceptance bands (false-alarm < 2^-40 per run); byte-level seed-separation metamorphics",
         "Every encryptable object (24 kinds incl. all key material, public, blind-rotation and bootstrapping keys, compressed forms) is encrypted, every cell decrypted exactly, errors pooled per kind "
         "(>= 2^16 quick / 2^22 thorough coefficients) and tested two-sidedly (variance band, mean, max <= bound incl. tight admissible bounds down to bound = sigma, zero fraction), masks tested for range, uniformity, bit balance and lag-1 correlation; "
         "metamorphic byte comparisons check that the mask depends only on the mask seed and the error seed changes only the body. Statistical: a +-10 % sigma drift is visible at the thorough size.",
         "Trusted: the variance model (rounding +1/12, truncation at the bound); thresholds documented in c06.rs.", "DESIGN.md §C06"),
 "C19": ("exploration", "runtime replay monitor: decompressed cells vs regenerated mask / error stream / public standard encryption; cross-backend byte comparison; serialisation round trip",
         "Every compressed layout is encrypted, decompressed and compared cell by cell with the mask regenerated from the stored seed, the replayed error stream and the public standard encryption of the "
         "cell's plaintext; the same object is built on a second backend and compared byte for byte; compress -> write -> read -> decompress must give the same object.",
         "Trusted: the replay order pinned in DESIGN Appendix A; LWE-related compressed keys are expanded GGLWE by GGLWE (their own decompress methods cannot be called: missing trait impls).", "DESIGN.md §C19"),
 "C07": ("exploration", "runtime monitor: exact schoolbook oracle (i128) on DFT-domain pipelines read back through the inverse transform, four backends",
         "Every DFT-domain operation is executed on random shapes (incl. mismatched sizes, offsets past the end, masks, all value classes with aligned extreme digits) at "
         "the largest operand width the backend's exactness predicate admits, and the big-accumulator result is compared bit for bit with the exact negacyclic / "
         "bivariate product (all coefficients for N <= 256, a random subset for N up to 2^16). Held on the executions observed.",
         "Trusted: the schoolbook model in c07.rs; the admissible-domain predicate (conservative by 4-5 bits on the pinned tree); outside it nothing is asserted.",
         "DESIGN.md §C07"),
 "C08": ("exploration", "runtime monitor: exact big-integer value of limb vectors before/after each call; exhaustive small scopes + random; release and debug-assertions builds",
         "Every normalisation / shift / fused form (small and big accumulators, same and cross radix, four backends) and every integer encode/decode routine is executed "
         "and its output compared on the torus with the exact value of the input times 2^offset (tolerance: the property's one unit of the last output limb, exact when the "
         "output has enough limbs; digit range for equal radices; untouched columns/limbs). Radices <= 3 (quick) / <= 4 (thorough) with sizes <= 3 are enumerated completely "
         "over all digit vectors incl. out-of-range digits and all offsets; the rest is sampled. Held on the executions observed.",
         "Trusted: dashu-int big integers and the 40-line value model in harness/src/exact.rs; inputs bounded by 2^62 / 2^100 (no documented headroom figure exists).",
         "DESIGN.md §C08"),
 "C09": ("exploration", "runtime monitor: index-level ring model + group-law metamorphic checks on executions of all four backends",
         "Every coefficient-domain HAL operation (small and big accumulator) is executed on random and enumerated shapes and compared limb by limb with an "
         "independent index-level model of Z[X]/(X^N+1); rotations and Galois elements are enumerated completely for N <= 64, the rest is sampled. "
         "Held on the executions observed, not proved.",
         "Trusted: the harness model (harness/src/exact.rs), release-mode semantics, the four CPU backends built with AVX2/FMA on this machine.",
         "DESIGN.md §C09"),
}

ALL_IDS = [f"C{i:02d}" for i in range(1, 21)]
NOT_YET = "monitor not built yet in this revision of /verif (planned, see DESIGN.md); not claimed"

def main():
    hooks_commits = subprocess.run(["git", "-C", "/repo", "log", "--format=%h %s", "--grep=^verif-hooks"], capture_output=True, text=True).stdout.strip().splitlines()
    checks = []
    for pid, (cat, tech, text, note, ref) in CLAIMED.items():
        checks.append(dict(
            property_id=pid,
            quick_cmd=f"./check {pid} --tier quick",
            thorough_cmd=f"./check {pid} --tier thorough",
            evidence_file=f"/verif/evidence/{pid}.json",
            replay_cmd_template=f"./check {pid} --replay {{path}}",
            engine="pvm",
            level_claimed=dict(category=cat, text=text, design_ref=ref),
            level_note=note,
            technique=tech,
        ))
    na = [dict(property_id=p, reason=NOT_YET) for p in ALL_IDS if p not in CLAIMED]
    m = dict(
        version=1,
        setup_cmd="./check --setup",
        hooks=dict(
            guard="cargo feature `verif-hooks` (poulpy-core, poulpy-bin-fhe); off by default",
            enable="harness/Cargo.toml feature `hooks` = poulpy-core/verif-hooks + poulpy-bin-fhe/verif-hooks; every flavour is built with it",
            baseline_off_cmd="cd /repo && cargo test --workspace --no-fail-fast --offline",
            source_commits=[l.split()[0] for l in hooks_commits],
            add_only=True,
        ),
        engines=[dict(name="pvm", path="/verif/harness", serves_properties=sorted(CLAIMED), kind_free_text=
                      "Rust harness linked against /repo by path (rebuilt by every check): workload generators, exact reference models, canary arenas, "
                      "event-log checkers; run natively (release, debug-assertions), under ASan, TSan, valgrind memcheck and Miri by the python driver ./check")],
        checks=checks,
        notes="Technique family: runtime monitoring and sanitizers. Verdicts are 'held on the executions observed'. Exit 2 = inconclusive (never used for violations).",
        not_applicable=na,
    )
    json.dump(m, open(os.path.join(ROOT, "MANIFEST.json"), "w"), indent=1)
    print("wrote MANIFEST.json:", len(checks), "claimed,", len(na), "not claimed")

if __name__ == "__main__":
    main()
