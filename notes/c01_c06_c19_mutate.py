#!/usr/bin/env python3
# usage: mutate.py <name>   -- restores repo-mut from /repo, applies the named mutant, builds harness-mut, runs the listed props (quick, 16 shards)
import sys,subprocess,os,json,glob,collections,shutil
R='/tmp/wk-c010619/repo-mut/'
M={
 'm00_none': ('poulpy-core/src/encryption/lwe.rs', 'use poulpy_hal::{', 'use poulpy_hal::{', ['c01','c06','c19']),
 'm01_sigma_scale_halved': ('poulpy-hal/src/layouts/mod.rs', "let scale: f64 = (((limb + 1) * base2k - self.k) as f64).exp2();", "let scale: f64 = ((((limb + 1) * base2k - self.k) as f64) - 1.0).max(0.0).exp2();", ['c06','c01']),
 'm02_sk_sign': ('poulpy-core/src/encryption/glwe.rs', "self.vec_znx_sub_assign(&mut c0, 0, &ci, 0);", "self.vec_znx_add_assign(&mut c0, 0, &ci, 0);", ['c01']),
 'm03_decrypt_ignores_pt_radix': ('poulpy-core/src/decryption/glwe.rs', "let pt_base2k: usize = pt.base2k().into();", "let pt_base2k: usize = res.base2k().into();", ['c01']),
 'm04_decompress_reverse_cols': ('poulpy-core/src/layouts/compressed/glwe.rs', "(1..(other.rank() + 1).into()).for_each(|i| {", "(1..(other.rank() + 1).into()).rev().for_each(|i| {", ['c01','c19']),
 'm05_gglwe_seed_index': ('poulpy-core/src/encryption/compressed/gglwe.rs', "seeds[row_i * rank_in + col_j] = seed;", "seeds[col_j * dnum + row_i] = seed;", ['c19','c06']),
 'm06_gglwe_same_seed_every_cell': ('poulpy-core/src/encryption/compressed/gglwe.rs', "let (seed, mut source_xa_tmp) = source_xa.branch();", "let (seed, mut source_xa_tmp) = (seed, Source::new(seed)); let _ = &mut source_xa;", ['c06','c19']),
 'm07_ggsw_no_noise_cols': ('poulpy-core/src/encryption/glwe.rs', "        // c[0] += e\n        self.vec_znx_add_normal(base2k, &mut c0, 0, enc_infos.noise_infos(), source_xe);", "        // c[0] += e\n        if pt.as_ref().map(|p| p.1 == 0).unwrap_or(true) { self.vec_znx_add_normal(base2k, &mut c0, 0, enc_infos.noise_infos(), source_xe); }", ['c06']),
 'm08_lwe_error_from_mask_stream': ('poulpy-core/src/encryption/lwe.rs', "self.vec_znx_add_normal(base2k, &mut tmp_znx, 0, enc_infos.noise_infos(), source_xe);", "self.vec_znx_add_normal(base2k, &mut tmp_znx, 0, enc_infos.noise_infos(), source_xa); let _ = &source_xe;", ['c06']),
 'm09_pk_noise_only_col0': ('poulpy-core/src/encryption/glwe.rs', "self.vec_znx_big_add_normal(base2k, &mut ci_big, 0, enc_infos.noise_infos(), source_xe);", "if i == 0 { self.vec_znx_big_add_normal(base2k, &mut ci_big, 0, enc_infos.noise_infos(), source_xe); }", ['c06','c01']),
 'm10_uniform_top_bit_clear': ('poulpy-cpu-ref/src/reference/znx/sampling.rs', ".for_each(|xi| *xi = (source.next_u64n(pow2k, mask) as i64) - pow2k_half)", ".for_each(|xi| *xi = ((source.next_u64n(pow2k, mask) & !(pow2k >> 4)) as i64) - pow2k_half)", ['c06','c19']),
 'm11_sigma_times_0_9': ('poulpy-cpu-ref/src/reference/vec_znx/sampling.rs', "        res.at_mut(res_col, limb),\n        noise_infos.sigma * scale,\n        noise_infos.bound * scale,\n        source,\n    )\n}\n\npub fn vec_znx_add_normal_ref", None, ['c06']),
 'm12_brk_one_seed': ('poulpy-bin-fhe/src/blind_rotation/algorithms/cggi/key_compressed.rs', "self.ggsw_compressed_encrypt_sk(ggsw, &pt, sk_glwe, source_xa.new_seed(), enc_infos, source_xe, scratch);", "self.ggsw_compressed_encrypt_sk(ggsw, &pt, sk_glwe, seed_xa, enc_infos, source_xe, scratch); let _ = &mut source_xa;", ['c19','c06']),
 'm13_serialise_seeds_reversed': ('poulpy-core/src/layouts/compressed/gglwe.rs', "        for s in &self.seed {\n            writer.write_all(s)?;\n        }", "        for s in self.seed.iter().rev() {\n            writer.write_all(s)?;\n        }", ['c19']),
 'm14_tensor_key_compressed_wrong_pairs': ('poulpy-core/src/encryption/compressed/glwe_tensor_key.rs', "self.gglwe_compressed_encrypt_sk(res, &sk_tensor.data, &sk_prepared, seed_xa, enc_infos, source_xe, scratch_2);", "{ let mut source_xe2 = Source::new(seed_xa); self.gglwe_compressed_encrypt_sk(res, &sk_tensor.data, &sk_prepared, seed_xa, enc_infos, &mut source_xe2, scratch_2); let _ = &source_xe; }", ['c06','c19']),
 'm15_noise_one_limb_lower': ('poulpy-hal/src/layouts/mod.rs', "let limb: usize = self.k.div_ceil(base2k) - 1;", "let limb: usize = (self.k + 1).div_ceil(base2k) - 1;", ['c01','c06']),
}
name=sys.argv[1]
f,old,new,props=M[name]
subprocess.check_call(['rsync','-rlpgoD','--checksum','--exclude','target','--exclude','.git','/repo/',R])  # no -t: restored files get a fresh mtime so that cargo rebuilds them
subprocess.call('find '+R+' -name "*.rs" -newer /tmp/wk-c010619/.mut_stamp -print0 2>/dev/null | xargs -0 -r touch',shell=True)
src=open(R+f).read()
if name=='m11_sigma_times_0_9':
    old="pub fn vec_znx_add_normal_ref"
    i=src.index(old)
    j=src.index("noise_infos.sigma * scale,", i)
    src=src[:j]+"noise_infos.sigma * scale * 0.9,"+src[j+len("noise_infos.sigma * scale,"):]
else:
    assert src.count(old)>=1,(name,'pattern not found')
    if name in ('m06_gglwe_same_seed_every_cell',):
        pass
    src=src.replace(old,new,1)
open(R+f,'w').write(src)
env=dict(os.environ,RUSTFLAGS="-Ctarget-feature=+avx2,+fma",CARGO_TARGET_DIR="/tmp/wk-c010619/target-mut")
r=subprocess.run(['cargo','build','--release','--features','avx,hooks'],cwd='/tmp/wk-c010619/harness-mut',env=env,capture_output=True,text=True)
if r.returncode!=0:
    print(r.stderr[-3000:]); sys.exit(1)
if len(sys.argv)>2: props=sys.argv[2].split(',')
for p in props:
    env2=dict(os.environ,PVM='/tmp/wk-c010619/target-mut/release/pvm')
    out=subprocess.run(['/tmp/wk-c010619/run16.sh',p,'1','quick'],env=env2,capture_output=True,text=True).stdout
    lines=out.splitlines()
    print('=====',name,p)
    # keep only groups that are not the baseline's known ones
    for ln in lines:
        if ln.startswith('wall') or ln.startswith('evaluations'): print(ln)
    base_known=('scratch:','gglwe_to_ggsw_key_compressed')
    shown=0
    for ln in lines:
        if ln[:1].isdigit() and not any(b in ln for b in base_known) and not ("'enc_pk', 'error_bound'" in ln or "'enc_zero_pk', 'error_bound'" in ln):
            print(ln); shown+=1
            if shown>14: break
    print('NEW GROUPS SHOWN:',shown)
