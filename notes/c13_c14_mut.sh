#!/bin/bash
# usage: mut.sh <name> <prop> <base: fixed|orig> <file relative to repo> <python-expr-old> <python-expr-new> [extra run args]
# restores repo-mut from base, applies a single textual replacement (must match exactly once), builds harness-mut, runs quick seed 1
name=$1; prop=$2; base=$3; file=$4; old=$5; new=$6; shift 6
if [ "$base" = fixed ]; then src=/tmp/wk-c1314/repo-fixed; else src=/repo; fi
rsync -a --delete --exclude target --exclude .git $src/ /tmp/wk-c1314/repo-mut/
python3 - "$file" "$old" "$new" <<'PY'
import sys
f,old,new=sys.argv[1:4]
p='/tmp/wk-c1314/repo-mut/'+f
s=open(p).read()
n=s.count(old)
if n<1: print("PATTERN NOT FOUND"); sys.exit(1)
if n>1: print("pattern occurs",n,"times; replacing first")
s=s.replace(old,new,1)
open(p,'w').write(s)
PY
[ $? -ne 0 ] && exit 1
cd /tmp/wk-c1314/harness-mut && RUSTFLAGS="-Ctarget-feature=+avx2,+fma" CARGO_TARGET_DIR=/tmp/wk-c1314/target-mut cargo build --release --features avx,hooks 2>&1 | grep -E '^error' -A 12 | head -30
cd /tmp/wk-c1314 && PVM=/tmp/wk-c1314/target-mut/release/pvm ./run16.py $prop quick 1 "$@" > mut_$name.txt 2>&1
echo "== $name: $(grep -E '^wall' mut_$name.txt | cut -c1-60) $(grep -E '^violations' mut_$name.txt)"
grep -E '^\(' mut_$name.txt | cut -c1-200
grep -A1 -E '^\(' mut_$name.txt | grep -vE '^\(|^--' | head -2 | cut -c1-700
