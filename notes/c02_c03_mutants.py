import subprocess, json, glob, sys, os, shutil
R='/tmp/wk-c0203/repo-mut/'
M=[
 # (id, prop, mode, file, old, new, description)
 ('M1','c02','', 'poulpy-core/src/api/operations.rs',
  '''            for i in min_col..max_col {
                self.vec_znx_negate(res.data_mut(), i, b.data(), i);
            }''','''            for i in min_col..max_col {
                self.vec_znx_copy(res.data_mut(), i, b.data(), i);
            }''','glwe_sub: plaintext - ciphertext copies the mask columns instead of negating them'),
 ('M2','c02','', 'poulpy-core/src/operations/glwe.rs',
  '''        for i in a_cols..res_cols {
            self.vec_znx_zero(res.data_mut(), i);
        }''','''        for i in a_cols + 1..res_cols {
            self.vec_znx_zero(res.data_mut(), i);
        }''','glwe_rotate: first unused mask column of res not zeroed when a is a plaintext'),
 ('M3','c02','', 'poulpy-core/src/operations/glwe.rs',
  '''        for i in 0..res.rank().as_usize() + 1 {
            self.vec_znx_mul_xp_minus_one_assign(k, res.data_mut(), i, scratch);
        }''','''        for i in 0..res.rank().as_usize() {
            self.vec_znx_mul_xp_minus_one_assign(k, res.data_mut(), i, scratch);
        }''','glwe_mul_xp_minus_one_assign: last column skipped'),
 ('M4','c02','', 'poulpy-core/src/operations/glwe.rs',
  '''            self.vec_znx_normalize(res.data_mut(), res_base2k, 0, i, a.data(), a.base2k().into(), i, scratch);''',
  '''            self.vec_znx_normalize(res.data_mut(), res_base2k, 0, i, a.data(), res_base2k, i, scratch);''','glwe_normalize: operand radix replaced by the result radix (cross-radix only)'),
 ('M5','c02','', 'poulpy-cpu-ref/src/reference/vec_znx/rotate.rs',
  '''    for j in min_size..res_size {
        ZNXARI::znx_zero(res.at_mut(res_col, j));
    }
}

pub fn vec_znx_rotate_assign''','''    for j in min_size + 1..res_size {
        ZNXARI::znx_zero(res.at_mut(res_col, j));
    }
}

pub fn vec_znx_rotate_assign''','vec_znx_rotate: first limb beyond the operand not zeroed when res is longer'),
 ('M6','c02','', 'poulpy-core/src/operations/glwe.rs',
  '''            self.vec_znx_lsh_add_into(base2k, k, res.data_mut(), i, a.data(), i, scratch);''',
  '''            self.vec_znx_lsh_add_into(base2k, k + (i & 1), res.data_mut(), i, a.data(), i, scratch);''','glwe_lsh_add: mask columns of odd index shifted by one bit more'),
 ('K1','c03','ks', 'poulpy-core/src/keyswitching/glwe.rs',
  '''                ai_dft.set_size(((a_size + di) / dsize).min(dnum));''','''                ai_dft.set_size((a_size / dsize).min(dnum));''','gadget product: partial last digit group dropped when a_size % dsize != 0'),
 ('K2','c03','ks', 'poulpy-core/src/keyswitching/glwe.rs',
  '''                    self.vec_znx_dft_copy(dsize, dsize - di - 1, &mut ai_dft, j, a, j);''','''                    self.vec_znx_dft_copy(dsize, dsize - di - 1, &mut ai_dft, j, a, 0);''','gadget product: digit groups of every input column read from column 0 (rank_in > 1, dsize > 1 only)'),
 ('K3','c03','ks', 'poulpy-core/src/keyswitching/glwe.rs',
  '''                res.set_size(pmat.size() - ((dsize - di) as isize - 2).max(0) as usize);''','''                res.set_size(pmat.size() - ((dsize - di) as isize - 1).max(0) as usize);''','gadget product: one more low limb dropped per digit (documented as +0.5..1 bit of noise)'),
 ('K4','c03','auto', 'poulpy-core/src/encryption/glwe_automorphism_key.rs',
  '''                    self.galois_element_inv(p),''','''                    p,''','automorphism key generated for the inverse direction'),
 ('K5','c03','trace', 'poulpy-core/src/glwe_trace.rs',
  '''        if res.base2k() == atk_layout.base2k() {
            self.glwe_copy(res, &tmp);''','''        if a.base2k() == atk_layout.base2k() {
            self.glwe_copy(res, &tmp);''','glwe_trace: final copy/normalise decided on the input radix instead of the result radix'),
 ('K6','c03','lwe', 'poulpy-core/src/conversion/glwe_to_lwe.rs',
  '''                self.glwe_rotate(-(a_idx as i64), &mut tmp_glwe_in, a);''','''                self.glwe_rotate(a_idx as i64, &mut tmp_glwe_in, a);''','lwe_from_glwe: rotation by +idx instead of -idx'),
 ('K7','c03','pack', 'poulpy-core/src/glwe_packing.rs',
  '''        let (mut tmp_b, scratch_1) = scratch.take_glwe(b);
        module.glwe_rotate(t, &mut tmp_b, b);''','''        let (mut tmp_b, scratch_1) = scratch.take_glwe(b);
        module.glwe_rotate(-t, &mut tmp_b, b);''','glwe_pack: lone high slot rotated the wrong way'),
 ('K8','c03','ggsw', 'poulpy-core/src/conversion/gglwe_to_ggsw.rs',
  '''        module.gglwe_product_dft(&mut res_dft, a_dft, tsk.at(col - 1), scratch_1);''','''        module.gglwe_product_dft(&mut res_dft, a_dft, tsk.at(0), scratch_1);''','ggsw_expand_row: tensor-key column 0 used for every output column (rank > 1 only)'),
 ('K9','c03','ks', 'poulpy-core/src/keyswitching/glwe.rs',
  '''            let (mut a_conv, scratch_2) = scratch_1.take_glwe(&GLWELayout {
                n: a.n(),
                base2k: key.base2k(),
                k: a.max_k(),
                rank: a.rank(),
            });
            self.glwe_normalize(&mut a_conv, a, scratch_2);
            self.glwe_keyswitch_internal(res_dft, &a_conv, key, scratch_2)''','''            let (mut a_conv, scratch_2) = scratch_1.take_glwe(&GLWELayout {
                n: a.n(),
                base2k: key.base2k(),
                k: (a.max_k().0 - a.base2k().0).into(),
                rank: a.rank(),
            });
            self.glwe_normalize(&mut a_conv, a, scratch_2);
            self.glwe_keyswitch_internal(res_dft, &a_conv, key, scratch_2)''','glwe_keyswitch: cross-radix pre-normalisation keeps one input limb too few'),
]
sel=sys.argv[1:] 
for (mid,prop,mode,f,old,new,descr) in M:
    if sel and mid not in sel: continue
    p=R+f
    src=open(p).read()
    if src.count(old)<1:
        print(mid,'PATTERN NOT FOUND'); continue
    open(p,'w').write(src.replace(old,new,1))
    b=subprocess.run('cd /tmp/wk-c0203/harness-mut && RUSTFLAGS="-Ctarget-feature=+avx2,+fma" CARGO_TARGET_DIR=/tmp/wk-c0203/target-mut cargo build --release --features avx,hooks 2>&1 | grep -E "^error" -A 8 | head -20',shell=True,capture_output=True,text=True)
    if b.stdout.strip():
        print(mid,'BUILD ERROR',b.stdout[:600]); open(p,'w').write(src); continue
    out='/tmp/wk-c0203/out-mut/'+mid
    extra=['--mode',mode] if mode else []
    r=subprocess.run(['/tmp/wk-c0203/run16.sh','/tmp/wk-c0203/target-mut',prop,'1','quick',out]+extra,capture_output=True,text=True)
    tot=0; func=0; ops={}
    for fn in glob.glob(out+'/s*.json'):
        d=json.load(open(fn)); tot+=d['violation_count']
        for v in d['violations']:
            if v['desc'].get('class')=='scratch_query_too_small' or v['desc'].get('class')=='res_dnum_lt_a_dnum': continue
            func+=1; ops[v['op']]=ops.get(v['op'],0)+1
    print(mid, 'CAUGHT' if func>0 else 'MISSED', '|', descr, '|', r.stdout.strip(), '| stored functional violations', func, dict(sorted(ops.items(), key=lambda x:-x[1])[:4]))
    sys.stdout.flush()
    open(p,'w').write(src)
