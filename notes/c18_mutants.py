import subprocess, sys, os, json, glob, collections
R='/tmp/wk-c18/repo-fix'
M={
 'M1_writer_writes_size_as_max_size': ('poulpy-hal/src/layouts/vec_znx.rs','writer.write_u64::<LittleEndian>(self.max_size as u64)?;','writer.write_u64::<LittleEndian>(self.size as u64)?;'),
 'M2_mat_buffer_check_off_by_one': ('poulpy-hal/src/layouts/mat_znx.rs','        if buf.len() < len {\n            return Err(std::io::Error::new(\n                std::io::ErrorKind::InvalidData,\n                format!("MatZnx buffer too small: self.data.len()={} < read len={len}", buf.len()),','        if buf.len() <= len {\n            return Err(std::io::Error::new(\n                std::io::ErrorKind::InvalidData,\n                format!("MatZnx buffer too small: self.data.len()={} < read len={len}", buf.len()),'),
 'M3_scalar_commits_before_payload': ('poulpy-hal/src/layouts/scalar_znx.rs','        reader.read_exact(&mut buf[..len])?;\n\n        self.n = new_n;\n        self.cols = new_cols;\n        Ok(())','        self.n = new_n;\n        self.cols = new_cols;\n        let buf: &mut [u8] = self.data.as_mut();\n        reader.read_exact(&mut buf[..len])?;\n        Ok(())'),
 'M4_gglwe_writer_swaps_scalars': ('poulpy-core/src/layouts/gglwe.rs','        writer.write_u32::<LittleEndian>(self.base2k.0)?;\n        writer.write_u32::<LittleEndian>(self.dsize.0)?;','        writer.write_u32::<LittleEndian>(self.dsize.0)?;\n        writer.write_u32::<LittleEndian>(self.base2k.0)?;'),
 'M5_dist_pack_shift_9': ('poulpy-core/src/dist.rs','(tag as u64) << 56 | (p.to_bits() >> 8)','(tag as u64) << 56 | (p.to_bits() >> 9)'),
 'M6_max_size_regression': ('poulpy-hal/src/layouts/vec_znx.rs','new_max_size.min(self.data.as_ref().len() / limb_bytes)','new_max_size.max(new_size)'),
 'M7_mat_one_factor_unchecked': ('poulpy-hal/src/layouts/mat_znx.rs','''        let expected_len: Option<usize> = [new_cols_in, new_n, new_cols_out, new_size, size_of::<i64>()]
            .iter()
            .try_fold(new_rows, |acc, x| acc.checked_mul(*x));''','''        let expected_len: Option<usize> = [new_cols_in, new_n, new_size, size_of::<i64>()]
            .iter()
            .try_fold(new_rows, |acc, x| acc.checked_mul(*x))
            .map(|x| x.wrapping_mul(new_cols_out));'''),
 'M8_lwe_ignores_inner_error': ('poulpy-core/src/layouts/lwe.rs','        let base2k = Base2K(reader.read_u32::<LittleEndian>()?);\n        self.data.read_from(reader)?;','        let base2k = Base2K(reader.read_u32::<LittleEndian>()?);\n        let _ = self.data.read_from(reader);'),
}
env=dict(os.environ, RUSTFLAGS='-Ctarget-feature=+avx2,+fma', CARGO_TARGET_DIR='/tmp/wk-c18/target-fix')
which=sys.argv[1:] or list(M)
for name in which:
    path,old,new=M[name]
    subprocess.run(['git','checkout','-q','.'],cwd=R)
    s=open(os.path.join(R,path)).read()
    assert s.count(old)==1,(name,s.count(old))
    open(os.path.join(R,path),'w').write(s.replace(old,new))
    b=subprocess.run(['cargo','build','--release','--features','avx,hooks'],cwd='/tmp/wk-c18/harness-fix',env=env,capture_output=True,text=True)
    if b.returncode!=0:
        print(name,'BUILD FAILED',b.stderr[-800:]); continue
    out=f'/tmp/wk-c18/out/{name}'
    subprocess.run(['/tmp/wk-c18/run16.sh','/tmp/wk-c18/target-fix/release/pvm','1','quick',out])
    classes=collections.Counter(); types=collections.defaultdict(set); inc=0
    for f in glob.glob(out+'/s*.json'):
        r=json.load(open(f)); inc+=len(r['inconclusive'])
        for k,v in r['counters'].items():
            if k.startswith('viol:'): classes[k[5:]]+=v
        for v in r['violations']: types[v['desc'].get('class',v['op'])].add(v['desc']['type'])
    crashed=[f for f in glob.glob(out+'/s*.err') if 'Aborted' in open(f).read()]
    print(name, dict(classes), {k:sorted(v)[:6] for k,v in types.items() if k!='container_partial_commit'}, 'inconclusive',inc, 'nfiles',len(glob.glob(out+'/s*.json')))
    sys.stdout.flush()
subprocess.run(['git','checkout','-q','.'],cwd=R)
