#!/usr/bin/env python3
# usage: run_mutant.py <name> <prop> <file> <old> <new> [count]
import sys, subprocess, shutil, os, json, glob
from collections import Counter
name, prop, path, old, new = sys.argv[1:6]
root='/tmp/wk-c0405/repo-mut/'; snap='/tmp/wk-c0405/repo-fixed-snap/'
src=open(snap+path).read()
n=src.count(old)
if n!=1:
    print(f"{name}: pattern occurs {n} times"); sys.exit(1)
open(root+path,'w').write(src.replace(old,new))
env=dict(os.environ, RUSTFLAGS="-Ctarget-feature=+avx2,+fma", CARGO_TARGET_DIR="/tmp/wk-c0405/target-mut")
b=subprocess.run("cargo build --release --features avx,hooks 2>&1 | grep -E '^error' -A8 | head -20", shell=True, cwd='/tmp/wk-c0405/harness-mut', env=env, capture_output=True, text=True)
if b.stdout.strip():
    print(name, "BUILD ERROR", b.stdout); shutil.copy(snap+path, root+path); sys.exit(1)
d=f'/tmp/wk-c0405/out/mut_{name}'; shutil.rmtree(d, ignore_errors=True); os.makedirs(d)
import time; t0=time.time()
ps=[subprocess.Popen(['/tmp/wk-c0405/target-mut/release/pvm', prop, '--seed','1','--shard',f'{i}/16','--tier','quick','--scale','0.25','--out',f'{d}/sh{i}.json'], stderr=subprocess.DEVNULL) for i in range(16)]
for p in ps: p.wait()
wall=time.time()-t0
c=Counter(); ev=0
for f in glob.glob(d+'/sh*.json'):
    r=json.load(open(f)); ev+=r['evaluations']
    for v in r['violations']:
        cl=v['desc'].get('class')
        if cl in ('cross_radix_negative_offset',) or v['op']=='glwe_tensor_decrypt:scratch': continue   # known on the base tree
        c[(v['op'],cl)]+=1
print(f"MUTANT {name} [{prop}] wall={wall:.0f}s evaluations={ev} new-violation classes: {dict(c) if c else 'NONE (missed)'}")
shutil.copy(snap+path, root+path)
