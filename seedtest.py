#!/usr/bin/env python3
"""Seeded-mutant workflow helper.

  ./seedtest.py verify <src_dir> <seed_id> <crate> [--features F] [--rustflags R]
        copy <src_dir>/{patch.diff,demo.rs,meta.json} to seeded/<seed_id>/, then in a scratch worktree of /repo:
        demo passes without the patch, fails with it (demo.rs is dropped into <crate>/tests/).
  ./seedtest.py run <seed_id> <CHECK> [<CHECK> ...]
        apply seeded/<seed_id>/patch.diff to /repo, run the quick checks, restore /repo, record results in meta.json.
"""
import json, os, shutil, subprocess, sys, time
ROOT = os.path.dirname(os.path.abspath(__file__))
WT = "/tmp/seedwt"

def sh(cmd, cwd=None, env=None, timeout=7200):
    p = subprocess.run(cmd, cwd=cwd, env=env, shell=isinstance(cmd, str), stdout=subprocess.PIPE, stderr=subprocess.STDOUT, text=True, timeout=timeout)
    return p.returncode, p.stdout

def verify(src, sid, crate, features=None, rustflags=None, testargs=None):
    WT = "/tmp/seedwt-" + sid
    dst = os.path.join(ROOT, "seeded", sid)
    os.makedirs(dst, exist_ok=True)
    for f in ("patch.diff", "demo.rs", "meta.json"):
        if os.path.exists(os.path.join(src, f)):
            shutil.copy(os.path.join(src, f), os.path.join(dst, f))
    sh(f"git -C /repo worktree remove --force {WT}")
    shutil.rmtree(WT, ignore_errors=True)
    rc, out = sh(f"git -C /repo worktree add --detach {WT} HEAD -q")
    assert rc == 0, out
    env = dict(os.environ, CARGO_TARGET_DIR=os.path.join(WT, "target"), CARGO_NET_OFFLINE="true")
    if rustflags:
        env["RUSTFLAGS"] = rustflags
    tdir = os.path.join(WT, crate, "tests")
    os.makedirs(tdir, exist_ok=True)
    tname = "seeded_demo_" + sid.replace("-", "_").lower()
    shutil.copy(os.path.join(dst, "demo.rs"), os.path.join(tdir, tname + ".rs"))
    cmd = ["cargo", "test", "-p", crate, "--test", tname, "--offline"] + (["--features", features] if features else []) + (["--"] + testargs.split() if testargs else [])
    rc0, out0 = sh(cmd, cwd=WT, env=env)
    rca, outa = sh(["git", "apply", os.path.join(dst, "patch.diff")], cwd=WT)
    rc1, out1 = (None, "patch did not apply: " + outa) if rca != 0 else sh(cmd, cwd=WT, env=env)
    base = None
    if rca == 0 and os.environ.get("SEED_BASELINE", "1") == "1":
        # the existing test suite (pinned baseline: 651 tests) must still pass with the patch applied
        os.remove(os.path.join(tdir, tname + ".rs"))
        rcb, outb = sh(["cargo", "test", "--workspace", "--no-fail-fast", "--offline"], cwd=WT, env=dict(env, RUSTFLAGS=""))
        passed = sum(int(l.split()[3]) for l in outb.splitlines() if l.startswith("test result:"))
        failed = sum(int(l.split()[5]) for l in outb.splitlines() if l.startswith("test result:"))
        base = dict(exit=rcb, passed=passed, failed=failed)
    res = dict(applies=rca == 0, baseline_with_patch=base, demo_passes_without_patch=rc0 == 0, demo_fails_with_patch=(rc1 not in (0, None)),
               demo_cmd=" ".join(cmd), tail_without=out0[-600:], tail_with=out1[-1200:])
    mp = os.path.join(dst, "meta.json")
    meta = json.load(open(mp)) if os.path.exists(mp) else {}
    meta["verified_here"] = res
    json.dump(meta, open(mp, "w"), indent=1)
    sh(f"git -C /repo worktree remove --force {WT}")
    shutil.rmtree(WT, ignore_errors=True)
    print(json.dumps({k: v for k, v in res.items() if not k.startswith("tail")}, indent=1))
    if not (res["applies"] and res["demo_passes_without_patch"] and res["demo_fails_with_patch"]):
        print(res["tail_without"]); print(res["tail_with"])

def run(sid, checks):
    dst = os.path.join(ROOT, "seeded", sid)
    rc, out = sh("git -C /repo status --porcelain --untracked-files=no")
    assert out.strip() == "", "/repo has uncommitted changes: " + out
    rc, out = sh(["git", "-C", "/repo", "apply", os.path.join(dst, "patch.diff")])
    assert rc == 0, out
    results = {}
    try:
        for c in checks:
            t0 = time.time()
            rc, out = sh([os.path.join(ROOT, "check"), c, "--tier", "quick"], cwd=ROOT)
            viol = [l for l in out.splitlines() if l.startswith("VIOLATION")]
            det = [l for l in out.splitlines() if l.startswith("  ")][:3]
            results[c] = dict(exit=rc, violations=len(viol), detected=(rc == 1 and len(viol) > 0), wall_s=round(time.time() - t0, 1), first_details=det)
            print(c, results[c]["exit"], results[c]["violations"], det[:1])
    finally:
        sh("git -C /repo checkout -- .")
        sh("git -C /repo clean -fdq")  # files the patch created (ignored build output stays)
    mp = os.path.join(dst, "meta.json")
    meta = json.load(open(mp)) if os.path.exists(mp) else {}
    meta.setdefault("checks_run", {}).update(results)
    meta.setdefault("checks_history", []).extend(dict(check=c, detected=r["detected"], exit=r["exit"], at=time.strftime("%Y-%m-%d %H:%M")) for c, r in results.items())
    json.dump(meta, open(mp, "w"), indent=1)
    # evidence files were rewritten by runs on a mutated tree: restore the committed ones
    sh("git checkout -- evidence", cwd=ROOT)

if __name__ == "__main__":
    a = sys.argv[1:]
    if a[0] == "verify":
        feats = a[a.index("--features") + 1] if "--features" in a else None
        rf = a[a.index("--rustflags") + 1] if "--rustflags" in a else None
        ta = a[a.index("--testargs") + 1] if "--testargs" in a else None
        verify(a[1], a[2], a[3], feats, rf, ta)
    elif a[0] == "run":
        run(a[1], a[2:])
